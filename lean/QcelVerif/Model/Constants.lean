import QcelVerif.Model.CodataBuild
/-!
# Model of `qcelemental/physical_constants/context.py` (`PhysicalConstantsContext`)

Stages of `__init__` (line numbers of context.py):
 1. constant loop (89-97): `pc[k] = Datum(quantity, unit, Decimal(value), comment="uncertainty="+u, doi=doi)`
 2. extra relationship (104-106): `calorie-joule relationship` = 4.184 J, `uncertainty=(exact)`, no doi
 3. CODATA2018 only (108-144): every 2014 name of a renamed constant is added under its lower-cased old
    name as `Datum(old_name, dm.units, dm.data, comment=dm.comment, doi=dm.doi)`
 4. CODATA2018 only (146-150): three constants NIST dropped after 2014, derived by Decimal arithmetic
 5. the 27 convenience aliases (152-199) — written here **from the documentation block at
    context.py:247-271 as the specification** (`aliasSpec`), evaluated with `Dec` (Python's
    precision-28 decimal arithmetic); the correspondence demands digit-for-digit equality with the
    implementation's Decimals, which is what binds the alias *code* to this specification
 6. attributes (201-204): `setattr(self, label.translate(_transtable), float(data))`
and `get` (223-245).  Core Lean only.
-/
namespace QcelVerif.Constants
open QcelVerif.PStr QcelVerif.Codata

/-- `qcelemental.datum.Datum` restricted to the fields the constants code sets (strings packed) -/
structure Datum where
  label : Nat
  units : Nat
  data : Dec
  comment : Nat
  doi : Option Nat
deriving DecidableEq, Repr

/-- `collections.OrderedDict[str, Datum]`, keys packed, insertion order kept -/
abbrev PC := List (Nat × Datum)

def pcFind : PC → Nat → Option Datum
  | [], _ => none
  | (k, d) :: t, x => match Nat.beq k x with | true => some d | false => pcFind t x

/-- `pc[k] = d`: replace in place (position kept) or append -/
def pcSet : PC → Nat → Datum → PC
  | [], k, d => [(k, d)]
  | (k', d') :: t, k, d => match Nat.beq k' k with | true => (k, d) :: t | false => (k', d') :: pcSet t k d

def attrFind : List (Nat × Nat) → Nat → Option Nat
  | [], _ => none
  | (k, v) :: t, x => match Nat.beq k x with | true => some v | false => attrFind t x

def attrSet : List (Nat × Nat) → Nat → Nat → List (Nat × Nat)
  | [], k, v => [(k, v)]
  | (k', v') :: t, k, v => match Nat.beq k' k with | true => (k, v) :: t | false => (k', v') :: attrSet t k v

/-- `_transtable` (context.py:45) applied by `str.translate`: blank, hyphen, open brace become `_`;
slash becomes `p`; full stop, comma, parentheses and close brace are deleted -/
def mangle (s : Bytes) : Bytes :=
  s.filterMap (fun c =>
    if c == 32 || c == 45 || c == 123 then some 95          -- ' ' '-' '{'  ->  '_'
    else if c == 47 then some 112                            -- '/'          ->  'p'
    else if c == 46 || c == 44 || c == 40 || c == 41 || c == 125 then none   -- . , ( ) }  deleted
    else some c)

/-! ### alias definitions as expressions over the context -/

inductive Expr where
  | pc (name : Bytes)      -- `self.pc[name.lower()].data`: the constant of that NIST name
  | lit (text : Bytes)     -- `Decimal(text)`
  | alias (name : Bytes)   -- another convenience alias (by its definition)
  | mul (a b : Expr)
  | div (a b : Expr)
deriving Repr

structure AliasDef where
  name : Bytes
  units : Bytes
  expr : Expr
  comment : Bytes
deriving Repr

def findAlias (tbl : List AliasDef) (n : Bytes) : Option AliasDef := tbl.find? (fun a => a.name == n)

/-- value in Python decimal arithmetic (prec 28, ROUND_HALF_EVEN); `none` = KeyError / ZeroDivision /
InvalidOperation.  Fuel-structural so that the kernel can evaluate it. -/
def Expr.evalDec (pc : PC) (tbl : List AliasDef) : Nat → Expr → Option Dec
  | 0, _ => none
  | _ + 1, .pc n => (pcFind pc (pack (lower n))).map (·.data)
  | _ + 1, .lit t => Dec.parse t
  | f + 1, .alias n => match findAlias tbl n with
      | some a => Expr.evalDec pc tbl f a.expr
      | none => none
  | f + 1, .mul a b => match Expr.evalDec pc tbl f a, Expr.evalDec pc tbl f b with
      | some x, some y => some (Dec.mul x y)
      | _, _ => none
  | f + 1, .div a b => match Expr.evalDec pc tbl f a, Expr.evalDec pc tbl f b with
      | some x, some y => Dec.div x y
      | _, _ => none

/-- exact value in ℚ of the same expression (the documented formula, no rounding) -/
def Expr.evalQ (pc : PC) (tbl : List AliasDef) : Nat → Expr → Option Rat
  | 0, _ => none
  | _ + 1, .pc n => (pcFind pc (pack (lower n))).map (·.data.val)
  | _ + 1, .lit t => (Dec.parse t).map Dec.val
  | f + 1, .alias n => match findAlias tbl n with
      | some a => Expr.evalQ pc tbl f a.expr
      | none => none
  | f + 1, .mul a b => match Expr.evalQ pc tbl f a, Expr.evalQ pc tbl f b with
      | some x, some y => some (x * y)
      | _, _ => none
  | f + 1, .div a b => match Expr.evalQ pc tbl f a, Expr.evalQ pc tbl f b with
      | some x, some y => if y == 0 then none else some (x / y)
      | _, _ => none

def evalFuel : Nat := 12

/-- **Specification of the 27 convenience aliases**, transcribed from the documentation block
context.py:247-271 (`name  definition  # comment`), in the order of the code's list (which fixes the
order of `pc`).  Names of constants are NIST's, as quoted in the block.

Notes on the transcription (all value-preserving in ℚ):
 * `hbar` and `amu2g` have no line in the block; their definitions are read off their comment
   strings ('Reduced Planck constant', 'Atomic mass units to grams') and `amu2kg`.
 * `hartree2MHz`: the block says `'hartree-hertz relationship'` (a value in Hz) while the name, the
   comment ('Hartree to MHz') and the quoted magnitude 6.579684E9 say MHz; the factor 1.E-6 is written.
 * `kcalmol2wavenumbers`: the block writes `10. / 'molar Planck constant times c'*4.184`; it is
   associated here as `(10 * 4.184) / mPc` — the same number in ℚ, one decimal rounding instead of
   two (with Python's left-to-right reading the 2018 value would end in …953 instead of …952).
 * `dipmom_au2debye`: `a / (b * 1.E-21)` as in the block (the code writes `a * 1.E21 / b`; scaling
   by a power of ten is exact in decimal arithmetic, so both give the same digits). -/
def aliasSpec : List AliasDef :=
  let P := Expr.pc
  let L := Expr.lit
  [ ⟨b!"h", b!"J s", P b!"hertz-joule relationship", b!"The Planck constant (Js)"⟩,
    ⟨b!"hbar", b!"J s", P b!"Planck constant over 2 pi", b!"Reduced Planck constant (Js)"⟩,
    ⟨b!"c", b!"m s^-1", P b!"inverse meter-hertz relationship", b!"Speed of light (ms$^{-1}$)"⟩,
    ⟨b!"kb", b!"J K^-1", P b!"kelvin-joule relationship", b!"The Boltzmann constant (JK$^{-1}$)"⟩,
    ⟨b!"R", b!"J mol^-1 K^-1", P b!"molar gas constant", b!"Universal gas constant (JK$^{-1}$mol$^{-1}$)"⟩,
    ⟨b!"bohr2angstroms", b!"AA", .mul (P b!"Bohr radius") (L b!"1.E10"), b!"Bohr to Angstroms conversion factor"⟩,
    ⟨b!"bohr2m", b!"m", P b!"Bohr radius", b!"Bohr to meters conversion factor"⟩,
    ⟨b!"bohr2cm", b!"cm", .mul (P b!"Bohr radius") (L b!"100"), b!"Bohr to centimeters conversion factor"⟩,
    ⟨b!"amu2g", b!"g", .mul (P b!"atomic mass constant") (L b!"1000"), b!"Atomic mass units to grams conversion factor"⟩,
    ⟨b!"amu2kg", b!"kg", P b!"atomic mass constant", b!"Atomic mass units to kg conversion factor"⟩,
    ⟨b!"au2amu", b!"u", P b!"electron mass in u", b!"Atomic units (m$@@e$) to atomic mass units conversion factor"⟩,
    ⟨b!"hartree2J", b!"J", P b!"Hartree energy", b!"Hartree to joule conversion factor"⟩,
    ⟨b!"hartree2aJ", b!"aJ", .mul (P b!"Hartree energy") (L b!"1.E18"), b!"Hartree to attojoule (10$^{-18}$J) conversion factor"⟩,
    ⟨b!"cal2J", b!"J", L b!"4.184", b!"Calorie to joule conversion factor"⟩,
    ⟨b!"dipmom_au2si", b!"C m", P b!"atomic unit of electric dipole mom.", b!"Atomic units to SI units (Cm) conversion factor for dipoles"⟩,
    ⟨b!"dipmom_au2debye", b!"???",
      .div (P b!"atomic unit of electric dipole mom.") (.mul (P b!"hertz-inverse meter relationship") (L b!"1.E-21")),
      b!"Atomic units to Debye conversion factor for dipoles"⟩,
    ⟨b!"dipmom_debye2si", b!"C m", .mul (P b!"hertz-inverse meter relationship") (L b!"1.E-21"), b!"Debye to SI units (Cm) conversion factor for dipoles"⟩,
    ⟨b!"c_au", b!"", P b!"inverse fine-structure constant", b!"Speed of light in atomic units"⟩,
    ⟨b!"hartree2ev", b!"eV", P b!"Hartree energy in eV", b!"Hartree to eV conversion factor"⟩,
    ⟨b!"hartree2wavenumbers", b!"cm^-1", .mul (P b!"hartree-inverse meter relationship") (L b!"0.01"), b!"Hartree to cm$^{-1}$ conversion factor"⟩,
    ⟨b!"hartree2kcalmol", b!"kcal mol^-1", .div (.alias b!"hartree2kJmol") (.alias b!"cal2J"), b!"Hartree to kcal mol$^{-1}$ conversion factor"⟩,
    ⟨b!"hartree2kJmol", b!"kJ mol^-1", .mul (.mul (P b!"Hartree energy") (P b!"Avogadro constant")) (L b!"0.001"), b!"Hartree to kilojoule mol$^{-1}$ conversion factor"⟩,
    ⟨b!"hartree2MHz", b!"MHz", .mul (P b!"hartree-hertz relationship") (L b!"1.E-6"), b!"Hartree to MHz conversion factor"⟩,
    ⟨b!"na", b!"mol^-1", P b!"Avogadro constant", b!"Avogadro's number"⟩,
    ⟨b!"me", b!"kg", P b!"electron mass", b!"Electron rest mass (in kg)"⟩,
    ⟨b!"kcalmol2wavenumbers", b!"kcal cm mol^-1", .div (.mul (L b!"10") (L b!"4.184")) (P b!"molar Planck constant times c"), b!"kcal mol$^{-1}$ to cm$^{-1}$ conversion factor"⟩,
    ⟨b!"e0", b!"F m^-1", P b!"electric constant", b!"Vacuum permittivity (Fm$^{-1}$)"⟩ ]

/-- `_get_pi(from_scratch=False)` (context.py:456) -/
def piText : Bytes := b!"3.14159265358979323846264338327950288"

/-- the three constants of the 2014 table that NIST no longer lists in 2018, derived from 2018
values (context.py:146-150): N_A·h·c, F/C_90, (e/ħ)/(2π) -/
def derived2018 : List AliasDef :=
  [ ⟨b!"molar Planck constant times c", b!"J m mol^{-1}",
      .mul (.pc b!"molar Planck constant") (.pc b!"speed of light in vacuum"), b!""⟩,
    ⟨b!"Faraday constant for conventional electric current", b!"C_{90} mol^{-1}",
      .div (.pc b!"Faraday constant") (.pc b!"conventional value of coulomb-90"), b!""⟩,
    ⟨b!"elementary charge over h", b!"A J^{-1}",
      .div (.pc b!"elementary charge over h-bar") (.mul (.lit b!"2") (.lit piText)), b!""⟩ ]

/-- `rename_2018_from_2014` (context.py:108-135): (2018 name, 2014 name) -/
def renameMap : List (Bytes × Bytes) :=
  [ (b!"atomic unit of momentum", b!"atomic unit of mom.um"),
    (b!"reduced Planck constant", b!"Planck constant over 2 pi"),
    (b!"reduced Planck constant in eV s", b!"Planck constant over 2 pi in eV s"),
    (b!"reduced Planck constant times c in MeV fm", b!"Planck constant over 2 pi times c in MeV fm"),
    (b!"natural unit of momentum", b!"natural unit of mom.um"),
    (b!"natural unit of momentum in MeV/c", b!"natural unit of mom.um in MeV/c"),
    (b!"electron gyromag. ratio in MHz/T", b!"electron gyromag. ratio over 2 pi"),
    (b!"vacuum mag. permeability", b!"mag. constant"),
    (b!"lattice spacing of ideal Si (220)", b!"{220} lattice spacing of silicon"),
    (b!"Planck constant in eV/Hz", b!"Planck constant in eV s"),
    (b!"Bohr magneton in inverse meter per tesla", b!"Bohr magneton in inverse meters per tesla"),
    (b!"Boltzmann constant in inverse meter per kelvin", b!"Boltzmann constant in inverse meters per kelvin"),
    (b!"Copper x unit", b!"Cu x unit"),
    (b!"Molybdenum x unit", b!"Mo x unit"),
    (b!"proton gyromag. ratio in MHz/T", b!"proton gyromag. ratio over 2 pi"),
    (b!"shielded proton gyromag. ratio in MHz/T", b!"shielded proton gyromag. ratio over 2 pi"),
    (b!"reduced proton Compton wavelength", b!"proton Compton wavelength over 2 pi"),
    (b!"reduced tau Compton wavelength", b!"tau Compton wavelength over 2 pi"),
    (b!"tau energy equivalent", b!"tau mass energy equivalent in mev"),
    (b!"reduced neutron Compton wavelength", b!"neutron Compton wavelength over 2 pi"),
    (b!"neutron gyromag. ratio in MHz/T", b!"neutron gyromag. ratio over 2 pi"),
    (b!"nuclear magneton in inverse meter per tesla", b!"nuclear magneton in inverse meters per tesla"),
    (b!"shielded helion gyromag. ratio in MHz/T", b!"shielded helion gyromag. ratio over 2 pi"),
    (b!"reduced Compton wavelength", b!"Compton wavelength over 2 pi"),
    (b!"vacuum electric permittivity", b!"electric constant"),
    (b!"reduced muon Compton wavelength", b!"muon Compton wavelength over 2 pi") ]

/-! ### context construction -/

def uncPrefix : Bytes := b!"uncertainty="

/-- stage 1: the constant loop; `none` = `Decimal(value)` raised InvalidOperation -/
def loadRows (doi : Nat) : List ShippedRow → PC → Option PC
  | [], pc => some pc
  | (k, q, u, v, unc) :: t, pc =>
    match Dec.parse (unpack v) with
    | none => none
    | some d => loadRows doi t (pcSet pc k ⟨q, u, d, pack (uncPrefix ++ unpack unc), some doi⟩)

/-- stage 2 -/
def addCalorie (pc : PC) : PC :=
  pcSet pc (pack b!"calorie-joule relationship")
    ⟨pack b!"calorie-joule relationship", pack b!"J", ⟨false, 4184, -3⟩, pack b!"uncertainty=(exact)", none⟩

/-- stage 3; `none` = KeyError on a new name -/
def addRenames : List (Bytes × Bytes) → PC → Option PC
  | [], pc => some pc
  | (new, old) :: t, pc =>
    match pcFind pc (pack (lower new)) with
    | none => none
    | some dm => addRenames t (pcSet pc (pack (lower old)) ⟨pack old, dm.units, dm.data, dm.comment, dm.doi⟩)

/-- all values of a definition list are computed on the same `pc` *before* any of them is inserted
(context.py builds the `aliases` list first, then loops over it at 197-199) -/
def evalAll (pc : PC) (tbl : List AliasDef) : List AliasDef → Option (List (AliasDef × Dec))
  | [] => some []
  | a :: t =>
    match a.expr.evalDec pc tbl evalFuel, evalAll pc tbl t with
    | some v, some r => some ((a, v) :: r)
    | _, _ => none

def insertAliases : List (AliasDef × Dec) → PC → PC
  | [], pc => pc
  | (a, v) :: t, pc =>
    insertAliases t (pcSet pc (pack (lower a.name)) ⟨pack a.name, pack a.units, v, pack a.comment, none⟩)

/-- stage 6 -/
def buildAttrs : PC → List (Nat × Nat) → List (Nat × Nat)
  | [], acc => acc
  | (_, d) :: t, acc => buildAttrs t (attrSet acc (pack (mangle (unpack d.label))) d.data.toF64)

structure Ctx where
  year : Nat
  pc : PC
  attrs : List (Nat × Nat)   -- attribute name ↦ IEEE-754 bits of `float(data)`

/-- `self.pc` after `__init__` (stages 1-5).  In 2018 the three derived constants are computed on the
renamed table; the 27 aliases are specified on the table that already contains them (the code
recomputes the same products inline — identical Decimals). -/
def buildPC (year : Nat) (doi : Nat) (rows : List ShippedRow) : Option PC := do
  let pc1 ← loadRows doi rows []
  let pc2 := addCalorie pc1
  let pc4 ← (if year == 2018 then do
      let pc3 ← addRenames renameMap pc2
      let dv ← evalAll pc3 [] derived2018
      pure (pc3, dv)
    else pure (pc2, []))
  let av ← evalAll (insertAliases pc4.2 pc4.1) aliasSpec aliasSpec
  pure (insertAliases (pc4.2 ++ av) pc4.1)

def build (year : Nat) (doi : Nat) (rows : List ShippedRow) : Option Ctx :=
  (buildPC year doi rows).map (fun pc => ⟨year, pc, buildAttrs pc []⟩)

/-! ### access -/

inductive Err where
  | keyError
  | attributeError
deriving DecidableEq, Repr

/-- `ctx.get(name, return_tuple=True)`: `self.pc[name.lower()]` -/
def Ctx.getDatum (c : Ctx) (name : Bytes) : Except Err Datum :=
  match pcFind c.pc (pack (lower name)) with
  | some d => .ok d
  | none => .error .keyError

/-- `ctx.get(name)`: `float(qca.data)` -/
def Ctx.getFloat (c : Ctx) (name : Bytes) : Except Err Nat := (c.getDatum name).map (·.data.toF64)

/-- `ctx.pc[name]` (plain dict access, case-sensitive) -/
def Ctx.item (c : Ctx) (name : Bytes) : Except Err Datum :=
  match pcFind c.pc (pack name) with
  | some d => .ok d
  | none => .error .keyError

/-- `getattr(ctx, name)` restricted to the float attributes set by stage 6 -/
def Ctx.attr (c : Ctx) (name : Bytes) : Except Err Nat :=
  match attrFind c.attrs (pack name) with
  | some v => .ok v
  | none => .error .attributeError

end QcelVerif.Constants
