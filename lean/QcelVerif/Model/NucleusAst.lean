import QcelVerif.Model.Nucleus
/-!
A small statement / expression language for the DECISION CODE of `qcelemental/molparse/nucleus.py`
(`reconcile_nucleus` with its nested closures, and the group-reading part of `parse_nucleus_label`) and its
evaluator (C06, source-derived procedure).  Core Lean only (the driver imports it).

`harness/c06_src.py` reads nucleus.py by `ast` on every run and writes `Gen/NucleusSrc.lean`: one `Stmt` per
source statement (nested `def`s become `FnDef`s called through `Stmt.call`), `lambda x, a=a: …` becomes a
closure `Clo` (default-bound parameters evaluated at append time = `caps`, free variables such as `mtol` /
`mmtol` read from the enclosing frame when the test runs = `TTerm.outer`).  What the translator drops or
recognises as a whole (and nothing else): logging (`if log_text: text.append("…".format(…))`, `text = […]`,
`log_text = verbose >= 2`, the final `print`), and the nested `reconcile(exact, tests, feature)` — its
loop / list comprehension / `all(...)` / `raise ValidationError` shape is checked and rendered as `RecDef`.

Values are dynamically typed as in Python (`Val`); a type error, an unbound variable, a `KeyError` or anything else
the modelled subset does not cover is `Err.other` — nothing is defaulted.  Periodic-table accessors are named
primitives evaluated on the model's own table structure (`NTables`, per-element range table `rng`); every place
where CPython rounds goes through the parameter `rd` (as in `Model/Nucleus.lean`).
-/
set_option linter.constructorNameAsVariable false
namespace QcelVerif.Nucleus.Ast
open QcelVerif QcelVerif.PStr QcelVerif.PT QcelVerif.Nucleus

inductive Cmp where
  | eq | ne | lt | le | gt | ge
  deriving Repr, DecidableEq

def Cmp.eval : Cmp → Rat → Rat → Bool
  | .eq, a, b => a == b
  | .ne, a, b => a != b
  | .lt, a, b => decide (a < b)
  | .le, a, b => decide (a ≤ b)
  | .gt, a, b => decide (b < a)
  | .ge, a, b => decide (b ≤ a)

/-- Python values of the modelled subset -/
inductive Val where
  | none
  | num (p : PyNum)          -- int | float | bool
  | str (s : Bytes)
  | sym (n : Nat)            -- an element symbol as returned by `periodictable.to_E` (packed, as in the table)
  | dict (r : Range)         -- `periodictable._el2a2mass[sym]`, known through min/max of its keys and values
  deriving Repr, DecidableEq

def Val.truthy : Val → Bool
  | .none => false
  | .num p => p.val != 0
  | .str s => !s.isEmpty
  | .sym _ => true
  | .dict _ => true

/-- comparison operators on the modelled subset: numbers by value, strings by `==` / `!=` -/
def Val.cmp : Cmp → Val → Val → Option Bool
  | op, .num a, .num b => Option.some (op.eval a.val b.val)
  | .eq, .str a, .str b => Option.some (a == b)
  | .ne, .str a, .str b => Option.some (a != b)
  | _, _, _ => Option.none

/-- `a - b`: exact on ints, one IEEE operation otherwise -/
def numSub (rd : Rat → Rat) : PyNum → PyNum → PyNum
  | .int a, .int b => .int (a - b)
  | a, b => .float (rd (a.val - b.val))

def numAdd (rd : Rat → Rat) : PyNum → PyNum → PyNum
  | .int a, .int b => .int (a + b)
  | a, b => .float (rd (a.val + b.val))

def numAbs : PyNum → PyNum
  | .int a => .int (if a < 0 then -a else a)
  | .float q => .float (absR q)
  | .bool b => .int (if b then 1 else 0)

abbrev Env := List (Nat × Val)

/-! ## lambda bodies (the tests appended to `*_range`) -/

inductive TTerm where
  | x                         -- the lambda's first parameter (the candidate)
  | cap (k : Nat)             -- k-th default-bound parameter (`lambda x, z=z: …`)
  | lit (v : Val)
  | outer (k : Nat)           -- free variable: read from the enclosing frame when the test runs
  | sub (a b : TTerm)
  | add (a b : TTerm)
  | abs (a : TTerm)
  deriving Repr, DecidableEq

inductive TBool where
  | cmp (op : Cmp) (a b : TTerm)
  | and (a b : TBool)
  | or (a b : TBool)
  deriving Repr, DecidableEq

structure Clo where
  caps : List Val
  body : TBool
  deriving Repr, DecidableEq

def TTerm.eval (rd : Rat → Rat) (g : Env) (x : Val) (caps : List Val) : TTerm → Option Val
  | .x => some x
  | .cap k => caps[k]?
  | .lit v => some v
  | .outer k => g.lookup k
  | .sub a b =>
      match a.eval rd g x caps, b.eval rd g x caps with
      | some (.num p), some (.num q) => some (.num (numSub rd p q))
      | _, _ => none
  | .add a b =>
      match a.eval rd g x caps, b.eval rd g x caps with
      | some (.num p), some (.num q) => some (.num (numAdd rd p q))
      | _, _ => none
  | .abs a =>
      match a.eval rd g x caps with
      | some (.num p) => some (.num (numAbs p))
      | _ => none

/-- `and` / `or` are lazy, as in Python; `none` = the test would raise -/
def TBool.eval (rd : Rat → Rat) (g : Env) (x : Val) (caps : List Val) : TBool → Option Bool
  | .cmp op a b =>
      match a.eval rd g x caps, b.eval rd g x caps with
      | some u, some v => Val.cmp op u v
      | _, _ => none
  | .and a b =>
      match a.eval rd g x caps with
      | some u => if u then b.eval rd g x caps else some false
      | none => none
  | .or a b =>
      match a.eval rd g x caps with
      | some u => if u then some true else b.eval rd g x caps
      | none => none

def Clo.test (rd : Rat → Rat) (g : Env) (c : Clo) (x : Val) : Option Bool := c.body.eval rd g x c.caps

/-! ## expressions -/

inductive GName where
  | gh1 | gh2 | A | E | user1 | Z | user2 | mass
  deriving Repr, DecidableEq

inductive Expr where
  | loc (k : Nat)                       -- parameter / local of the nested function being run
  | glob (k : Nat)                      -- variable of `reconcile_nucleus`'s own frame
  | lit (v : Val)
  | pyInt (e : Expr)                    -- `int(e)`
  | pyFloat (e : Expr)                  -- `float(e)`
  | pyStr (e : Expr)                    -- `str(e)`
  | lower (e : Expr)                    -- `e.lower()`
  | round0 (e : Expr)                   -- `round(e, 0)`
  | add (a b : Expr)
  | sub (a b : Expr)
  | abs (a : Expr)
  | toZ (e : Expr) (strict : Bool)      -- `periodictable.to_Z(e, strict=…)`
  | toE (e : Expr) (strict : Bool)      -- `periodictable.to_E(e)`
  | toA (e : Expr)                      -- `periodictable.to_A(e)`
  | toMass (e : Expr)                   -- `periodictable.to_mass(e)`
  | el2a2mass (e : Expr)                -- `periodictable._el2a2mass[e]`
  | minKeys (e : Expr)                  -- `min(e.keys())`
  | maxKeys (e : Expr)
  | minVals (e : Expr)                  -- `min(e.values())`
  | maxVals (e : Expr)
  | group (g : GName)                   -- `matchobj.group("…")`
  | isNone (e : Expr)                   -- `e is None`
  | isNotNone (e : Expr)                -- `e is not None`
  | isTrue (e : Expr)                   -- `e is True`
  | notE (e : Expr)
  | orE (a b : Expr)                    -- `a or b` (returns an operand)
  | andE (a b : Expr)
  | cmp (op : Cmp) (a b : Expr)
  deriving Repr, DecidableEq

/-- what the evaluator knows of the world: the tables, the rounding function, the match object -/
structure World where
  N : NTables
  rd : Rat → Rat
  rng : Nat → Option Range
  grp : Option Groups

def asPyVal : Val → Except Err PyVal
  | .num (.int i) => .ok (.int i)
  | .str s => .ok (.str s)
  | .sym n => .ok (.str (unpack n))
  | _ => .error .other

def vbool (b : Bool) : Val := .num (.bool b)

def groupVal (g : Groups) : GName → Val
  | .gh1 => if g.gh1 then .str [64] else .none            -- only ever tested for truth
  | .gh2 => if g.gh2 then .str [71, 104, 40] else .none
  | .A => match g.A with | some s => .str s | none => .none
  | .E => match g.E with | some s => .str s | none => .none
  | .user1 => match g.user1 with | some s => .str s | none => .none
  | .Z => match g.Z with | some s => .str s | none => .none
  | .user2 => match g.user2 with | some s => .str s | none => .none
  | .mass => match g.mass with | some s => .str s | none => .none

def Expr.eval (W : World) (g loc : Env) : Expr → Except Err Val
  | .loc k => ofOpt .other (loc.lookup k)
  | .glob k => ofOpt .other (g.lookup k)
  | .lit v => .ok v
  | .pyInt e => do
      match ← e.eval W g loc with
      | .num p => pure (.num (.int (truncInt p.val)))
      | .str s => pure (.num (.int (digitsVal s : Nat)))       -- only applied to a `\d+` capture
      | _ => throw .other
  | .pyFloat e => do
      match ← e.eval W g loc with
      | .num p => pure (.num (.float (W.rd p.val)))
      | .str s => match decVal s with
          | some q => pure (.num (.float (W.rd q)))
          | none => throw .other
      | _ => throw .other
  | .pyStr e => do
      match ← e.eval W g loc with
      | .num (.int i) => pure (.str (intStr i))
      | .str s => pure (.str s)
      | .sym n => pure (.str (unpack n))
      | _ => throw .other
  | .lower e => do
      match ← e.eval W g loc with
      | .str s => pure (.str (PStr.lower s))
      | _ => throw .other
  | .round0 e => do
      match ← e.eval W g loc with
      | .num (.float q) => pure (.num (.float ((roundHalfEven q : Int) : Rat)))
      | _ => throw .other
  | .add a b => do
      match ← a.eval W g loc, ← b.eval W g loc with
      | .num p, .num q => pure (.num (numAdd W.rd p q))
      | .str s, .str t => pure (.str (s ++ t))
      | .sym n, .str t => pure (.str (unpack n ++ t))
      | _, _ => throw .other
  | .sub a b => do
      match ← a.eval W g loc, ← b.eval W g loc with
      | .num p, .num q => pure (.num (numSub W.rd p q))
      | _, _ => throw .other
  | .abs a => do
      match ← a.eval W g loc with
      | .num p => pure (.num (numAbs p))
      | _ => throw .other
  | .toZ e strict => do
      let k ← asPyVal (← e.eval W g loc)
      let z ← ofOpt .notAnElement (W.N.pt.toZ k strict)
      pure (.num (.int (z : Nat)))
  | .toE e strict => do
      let k ← asPyVal (← e.eval W g loc)
      let s ← ofOpt .notAnElement (W.N.pt.toE k strict)
      pure (.sym s)
  | .toA e => do
      let k ← asPyVal (← e.eval W g loc)
      let a ← ofOpt .notAnElement (W.N.pt.toA k)
      pure (.num (.int (a : Nat)))
  | .toMass e => do
      let k ← asPyVal (← e.eval W g loc)
      let m ← tableMass W.N W.rd k
      pure (.num (.float m))
  | .el2a2mass e => do
      match ← e.eval W g loc with
      | .sym n => do
          let r ← ofOpt .other (W.rng n)
          pure (.dict r)
      | _ => throw .other
  | .minKeys e => do
      match ← e.eval W g loc with
      | .dict r => pure (.num (.int r.amin))
      | _ => throw .other
  | .maxKeys e => do
      match ← e.eval W g loc with
      | .dict r => pure (.num (.int r.amax))
      | _ => throw .other
  | .minVals e => do
      match ← e.eval W g loc with
      | .dict r => pure (.num (.float r.mmin))
      | _ => throw .other
  | .maxVals e => do
      match ← e.eval W g loc with
      | .dict r => pure (.num (.float r.mmax))
      | _ => throw .other
  | .group n =>
      match W.grp with
      | some gr => .ok (groupVal gr n)
      | none => .error .other
  | .isNone e => do
      let v ← e.eval W g loc
      pure (vbool (v == .none))
  | .isNotNone e => do
      let v ← e.eval W g loc
      pure (vbool (v != .none))
  | .isTrue e => do
      let v ← e.eval W g loc
      pure (vbool (v == .num (.bool true)))
  | .notE e => do
      let v ← e.eval W g loc
      pure (vbool (!v.truthy))
  | .orE a b => do
      let v ← a.eval W g loc
      if v.truthy then pure v else b.eval W g loc
  | .andE a b => do
      let v ← a.eval W g loc
      if v.truthy then b.eval W g loc else pure v
  | .cmp op a b => do
      let u ← a.eval W g loc
      let v ← b.eval W g loc
      match Val.cmp op u v with
      | some r => pure (vbool r)
      | none => throw .other

def evalArgs (W : World) (g loc : Env) : List Expr → Except Err (List Val)
  | [] => .ok []
  | e :: t => do
      let v ← e.eval W g loc
      let vs ← evalArgs W g loc t
      pure (v :: vs)

/-! ## statements -/

/-- the five evidence dimensions: `Z_* A_* m_* r_* l_*` -/
inductive LName where
  | z | a | m | r | l
  deriving Repr, DecidableEq

mutual
  inductive Stmt where
    | assign (isLoc : Bool) (k : Nat) (e : Expr)                -- `x = e`
    | initCands (l : LName) (vs : List Val)                     -- `L_exact = [lits]`
    | initTests (l : LName)                                     -- `L_range = []`
    | appendCand (l : LName) (e : Expr)                         -- `L_exact.append(e)`
    | appendTest (l : LName) (caps : List Expr) (body : TBool)  -- `L_range.append(lambda x, c0=e0, …: body)`
    | ite (c : Expr) (t e : Block)                              -- `if c: t else: e`
    | call (f : Nat) (args : List Expr)                         -- nested-closure call
    | tryNAE (body handler : Block)                             -- `try: body except NotAnElementError: handler`
    | unpackParse (targets : List Nat) (arg : Expr)             -- `t0, …, t5 = parse_nucleus_label(arg)`
    | reconcile (k : Nat) (l : LName) (f : Feature)             -- `k = reconcile(L_exact, L_range, "feature")`
    | raise (e : Err)
  inductive Block where
    | nil
    | cons (s : Stmt) (b : Block)
end

/-- the state: the enclosing frame and the ten evidence lists -/
structure St where
  g : Env
  zE : List Int
  zR : List Clo
  aE : List Int
  aR : List Clo
  mE : List Rat
  mR : List Clo
  rE : List PyNum
  rR : List Clo
  lE : List Bytes
  lR : List Clo
  deriving Repr, DecidableEq

def St.setCands (st : St) : LName → List Val → Except Err St
  | .z, vs => do
      let xs ← vs.mapM (fun v => match v with | .num (.int i) => Except.ok i | _ => .error Err.other)
      pure { st with zE := xs }
  | .a, vs => do
      let xs ← vs.mapM (fun v => match v with | .num (.int i) => Except.ok i | _ => .error Err.other)
      pure { st with aE := xs }
  | .m, vs => do
      let xs ← vs.mapM (fun v => match v with | .num (.float q) => Except.ok q | _ => .error Err.other)
      pure { st with mE := xs }
  | .r, vs => do
      let xs ← vs.mapM (fun v => match v with | .num p => Except.ok p | _ => .error Err.other)
      pure { st with rE := xs }
  | .l, vs => do
      let xs ← vs.mapM (fun v => match v with | .str s => Except.ok s | _ => .error Err.other)
      pure { st with lE := xs }

def St.clearTests (st : St) : LName → St
  | .z => { st with zR := [] }
  | .a => { st with aR := [] }
  | .m => { st with mR := [] }
  | .r => { st with rR := [] }
  | .l => { st with lR := [] }

/-- the candidate lists are typed: Z and A hold ints, masses floats, real/ghost any number, labels strings -/
def St.pushCand (st : St) : LName → Val → Except Err St
  | .z, .num (.int i) => .ok { st with zE := st.zE ++ [i] }
  | .a, .num (.int i) => .ok { st with aE := st.aE ++ [i] }
  | .m, .num (.float q) => .ok { st with mE := st.mE ++ [q] }
  | .r, .num p => .ok { st with rE := st.rE ++ [p] }
  | .l, .str s => .ok { st with lE := st.lE ++ [s] }
  | _, _ => .error .other

def St.pushTest (st : St) (c : Clo) : LName → St
  | .z => { st with zR := st.zR ++ [c] }
  | .a => { st with aR := st.aR ++ [c] }
  | .m => { st with mR := st.mR ++ [c] }
  | .r => { st with rR := st.rR ++ [c] }
  | .l => { st with lR := st.lR ++ [c] }

/-- `[fn(candidate) for fn in tests]` then `all(...)` / `any(...)`: every test is run (no laziness across tests) -/
def runTests (rd : Rat → Rat) (g : Env) (tests : List Clo) (x : Val) : Option (List Bool) :=
  tests.mapM fun c => c.test rd g x

/-- the nested `reconcile(exact, tests, feature)`: which quantifier decides, and what is raised -/
structure RecDef where
  quantAll : Bool          -- `all(assessment)` (true) / `any(assessment)` (false)
  raisesValidation : Bool  -- `raise ValidationError(err)` with the feature's name first in the message
  deriving Repr, DecidableEq

def RecDef.err (R : RecDef) (f : Feature) : Err := if R.raisesValidation then .validation f else .other

def firstPassingSrc {α} (R : RecDef) (rd : Rat → Rat) (g : Env) (inj : α → Val) (tests : List Clo) :
    List α → Except Err (Option α)
  | [] => .ok none
  | c :: t =>
      match runTests rd g tests (inj c) with
      | none => .error .other
      | some bs => if (if R.quantAll then bs.all id else bs.any id) then .ok (some c) else firstPassingSrc R rd g inj tests t

def St.reconcile (R : RecDef) (rd : Rat → Rat) (st : St) (k : Nat) (f : Feature) : LName → Except Err St
  | .z => do
      let r ← firstPassingSrc R rd st.g (fun (i : Int) => Val.num (.int i)) st.zR st.zE
      let v ← ofOpt (R.err f) r
      pure { st with g := (k, .num (.int v)) :: st.g }
  | .a => do
      let r ← firstPassingSrc R rd st.g (fun (i : Int) => Val.num (.int i)) st.aR st.aE
      let v ← ofOpt (R.err f) r
      pure { st with g := (k, .num (.int v)) :: st.g }
  | .m => do
      let r ← firstPassingSrc R rd st.g (fun (q : Rat) => Val.num (.float q)) st.mR st.mE
      let v ← ofOpt (R.err f) r
      pure { st with g := (k, .num (.float v)) :: st.g }
  | .r => do
      let r ← firstPassingSrc R rd st.g (fun (p : PyNum) => Val.num p) st.rR st.rE
      let v ← ofOpt (R.err f) r
      pure { st with g := (k, .num v) :: st.g }
  | .l => do
      let r ← firstPassingSrc R rd st.g (fun (s : Bytes) => Val.str s) st.lR st.lE
      let v ← ofOpt (R.err f) r
      pure { st with g := (k, .str v) :: st.g }

def bindAll : List Nat → List Val → Env → Except Err Env
  | [], [], g => .ok g
  | k :: ks, v :: vs, g => bindAll ks vs ((k, v) :: g)
  | _, _, _ => .error .other

/-- what a statement needs from outside: the world, the nested closures, `parse_nucleus_label`, `reconcile` -/
structure Hooks where
  W : World
  R : RecDef
  callee : Nat → List Val → St → Except Err St
  parse : Val → Except Err (List Val)

mutual
  def Stmt.exec (H : Hooks) (loc : Env) (st : St) : Stmt → Except Err (Env × St)
    | .assign true k e => do
        let v ← e.eval H.W st.g loc
        pure ((k, v) :: loc, st)
    | .assign false k e => do
        let v ← e.eval H.W st.g loc
        pure (loc, { st with g := (k, v) :: st.g })
    | .initCands l vs => do
        let st' ← st.setCands l vs
        pure (loc, st')
    | .initTests l => .ok (loc, st.clearTests l)
    | .appendCand l e => do
        let v ← e.eval H.W st.g loc
        let st' ← st.pushCand l v
        pure (loc, st')
    | .appendTest l caps body => do
        let vs ← evalArgs H.W st.g loc caps
        pure (loc, st.pushTest ⟨vs, body⟩ l)
    | .ite c t e => do
        let v ← c.eval H.W st.g loc
        if v.truthy then t.exec H loc st else e.exec H loc st
    | .call f args => do
        let vs ← evalArgs H.W st.g loc args
        let st' ← H.callee f vs st
        pure (loc, st')
    | .tryNAE body handler =>
        match body.exec H loc st with
        | .error .notAnElement => handler.exec H loc st
        | r => r
    | .unpackParse targets arg => do
        let v ← arg.eval H.W st.g loc
        let vs ← H.parse v
        let g' ← bindAll targets vs st.g
        pure (loc, { st with g := g' })
    | .reconcile k l f => do
        let st' ← st.reconcile H.R H.W.rd k f l
        pure (loc, st')
    | .raise e => .error e
  def Block.exec (H : Hooks) (loc : Env) (st : St) : Block → Except Err (Env × St)
    | .nil => .ok (loc, st)
    | .cons s b => do
        let r ← s.exec H loc st
        b.exec H r.1 r.2
end

structure FnDef where
  nparams : Nat
  body : Block

structure Program where
  fns : List (Nat × FnDef)        -- the nested closures `offer_*`, by number
  recDef : RecDef                    -- the nested `reconcile`
  body : Block                    -- `reconcile_nucleus` from `# <<< initialize` to the `return`
  ret : List Expr                 -- the returned tuple
  parseBody : Block               -- `parse_nucleus_label`: the branch taken when the pattern matched
  parseRet : List Expr            -- its returned tuple
  parseFail : Err                 -- what is raised when the pattern did not match

def noCallee : Nat → List Val → St → Except Err St := fun _ _ _ => .error .other
def noParse : Val → Except Err (List Val) := fun _ => .error .other

def paramEnv : Nat → List Val → Env
  | _, [] => []
  | k, v :: t => (k, v) :: paramEnv (k + 1) t

/-- one level of nested-closure calls: `inner` serves the calls made by the callee itself -/
def callFn (P : Program) (W : World) (inner : Nat → List Val → St → Except Err St) (f : Nat) (vs : List Val) (st : St) :
    Except Err St :=
  match P.fns.lookup f with
  | none => .error .other
  | some d =>
    if d.nparams = vs.length then
      (d.body.exec { W := W, R := P.recDef, callee := inner, parse := noParse } (paramEnv 0 vs) st).map (·.2)
    else .error .other

/-- the closures call each other at most one level deep (`offer_element_symbol` → `offer_atomic_number`); a deeper
call is `Err.other` -/
def callee2 (P : Program) (W : World) : Nat → List Val → St → Except Err St :=
  callFn P W (callFn P W noCallee)

/-- the source-derived field extraction of `parse_nucleus_label` on a match object -/
def parseFieldsSrc (P : Program) (W : World) (gr : Groups) : Except Err (List Val) := do
  let W' : World := { W with grp := some gr }
  let r ← P.parseBody.exec { W := W', R := P.recDef, callee := noCallee, parse := noParse } []
            { g := [], zE := [], zR := [], aE := [], aR := [], mE := [], mR := [], rE := [], rR := [], lE := [], lR := [] }
  evalArgs W' r.2.g r.1 P.parseRet

/-- `parse_nucleus_label(label)` with the compiled pattern's answer `matchNucleus` (proved equal to the regenerated
regex, `Props/C06Regex.lean`) -/
def parseSrc (P : Program) (W : World) : Val → Except Err (List Val)
  | .str l =>
      match matchNucleus l with
      | none => .error P.parseFail
      | some gr => parseFieldsSrc P W gr
  | _ => .error .other

def optNum : Option PyNum → Val
  | some p => .num p
  | none => .none

def optStr : Option Bytes → Val
  | some s => .str s
  | none => .none

/-- the frame at entry: parameters 0..8 in signature order (`verbose`, parameter 9, only feeds logging and is not
bound: any other use of it is `Err.other`) -/
def frameOf (i : Input) : Env :=
  [(0, optNum i.A), (1, optNum i.Z), (2, optStr i.E), (3, optNum i.mass), (4, optNum i.real), (5, optStr i.label),
   (6, vbool i.speclabel), (7, vbool i.nonphysical), (8, .num i.mtol)]

def toOutput : List Val → Except Err Output
  | [.num (.int a), .num (.int z), .sym e, .num (.float m), .num r, .str u] =>
      .ok { A := a, Z := z, E := e, mass := m, real := r, user := u }
  | _ => .error .other

/-- the source-derived `reconcile_nucleus` -/
def reconcileSrc (P : Program) (N : NTables) (rd : Rat → Rat) (rng : Nat → Option Range) (i : Input) : Except Err Output := do
  let W : World := { N := N, rd := rd, rng := rng, grp := none }
  let H : Hooks := { W := W, R := P.recDef, callee := callee2 P W, parse := parseSrc P W }
  let r ← P.body.exec H []
            { g := frameOf i, zE := [], zR := [], aE := [], aR := [], mE := [], mR := [], rE := [], rR := [], lE := [], lR := [] }
  let vs ← evalArgs W r.2.g r.1 P.ret
  toOutput vs

end QcelVerif.Nucleus.Ast
