import QcelVerif.Model.ChgMult
/-
Model of `qcelemental/molparse/from_arrays.py::from_arrays` (domain `'qm'`), of
`from_schema.py::from_schema` / `contiguize_from_fragment_pattern` and of the record-level part of
`to_schema.py::to_schema` (C04).

Core Lean only.  The model follows the source stage by stage (line references are to
/repo/qcelemental/molparse/from_arrays.py unless another file is named):

  * domain sorting, missing `geom`                       308-314
  * `validate_and_fill_units`                            411-501   (name, comment, connectivity, units, input_units_to_au)
  * `validate_and_fill_geometry`                         594-616   (reshape to n×3, pairwise too-close screen; exact in ℚ)
  * `validate_and_fill_nuclei`                           619-702   (None-filling, `-1 ≡ None` for A, shape check, per-atom reconciler)
  * `validate_and_fill_fragments`                        705-773   (trial `np.split` with Python slice clamping, the four checks)
  * `validate_and_fill_chgmult` on `Z·real`              379-392   (C05 model `ChgMult.vfc`, reused)
  * `validate_and_fill_frame` (`extern = False`)         504-547
  * the merge: `update_with_error` is called on stage dictionaries with pairwise disjoint key
    sets (`stageKeys_disjoint` below), so it is a plain union and its `KeyError` branch is
    unreachable in domain `'qm'`; the `del molinit["fragment_charges"]`/`["fragment_multiplicities"]`
    before the chgmult merge (390-391) is what keeps the key sets disjoint.

The per-atom reconciler (`molparse/nucleus.py::reconcile_nucleus`, property C06) is a PARAMETER
(`Env.recon`): the model fixes which clues, for which atom, with which settings it is called, and
how its answers are assembled; what it answers is C06's business.

Out of the model (see harness ASSUMPTIONS): provenance, domains `efp`/`qmvz`,
`missing_enabled_return='none'`, fractional charges, non-ASCII strings, NaN/inf coordinates.
-/
namespace QcelVerif.FromArrays
open QcelVerif.ChgMult (vfc isum)

/-! ### errors -/

inductive Err where
  | validation                 -- qcelemental.ValidationError
  | other (cls : String)       -- whatever class the per-atom reconciler raised (propagated unchanged)
  deriving Repr, DecidableEq

/-- first error wins, left to right (a Python list comprehension) -/
def mapE {α β ε} (f : α → Except ε β) : List α → Except ε (List β)
  | [] => .ok []
  | a :: t =>
    match f a with
    | .error e => .error e
    | .ok b =>
      match mapE f t with
      | .error e => .error e
      | .ok bs => .ok (b :: bs)

/-! ### ASCII case helpers (`str.capitalize`, `str.lower`, `str.startswith`) on `List Char` -/

def lowerC : Char → Char
  | 'A' => 'a'
  | 'B' => 'b'
  | 'C' => 'c'
  | 'D' => 'd'
  | 'E' => 'e'
  | 'F' => 'f'
  | 'G' => 'g'
  | 'H' => 'h'
  | 'I' => 'i'
  | 'J' => 'j'
  | 'K' => 'k'
  | 'L' => 'l'
  | 'M' => 'm'
  | 'N' => 'n'
  | 'O' => 'o'
  | 'P' => 'p'
  | 'Q' => 'q'
  | 'R' => 'r'
  | 'S' => 's'
  | 'T' => 't'
  | 'U' => 'u'
  | 'V' => 'v'
  | 'W' => 'w'
  | 'X' => 'x'
  | 'Y' => 'y'
  | 'Z' => 'z'
  | c => c

def upperC : Char → Char
  | 'a' => 'A'
  | 'b' => 'B'
  | 'c' => 'C'
  | 'd' => 'D'
  | 'e' => 'E'
  | 'f' => 'F'
  | 'g' => 'G'
  | 'h' => 'H'
  | 'i' => 'I'
  | 'j' => 'J'
  | 'k' => 'K'
  | 'l' => 'L'
  | 'm' => 'M'
  | 'n' => 'N'
  | 'o' => 'O'
  | 'p' => 'P'
  | 'q' => 'Q'
  | 'r' => 'R'
  | 's' => 'S'
  | 't' => 'T'
  | 'u' => 'U'
  | 'v' => 'V'
  | 'w' => 'W'
  | 'x' => 'X'
  | 'y' => 'Y'
  | 'z' => 'Z'
  | c => c

def lower (s : List Char) : List Char := s.map lowerC

def capitalize : List Char → List Char
  | [] => []
  | c :: t => upperC c :: t.map lowerC

def startsWith (s p : List Char) : Bool := p.isPrefixOf s

def sAngstrom : List Char := "Angstrom".toList
def sBohr : List Char := "Bohr".toList

/-! ### the per-atom reconciler as a parameter -/

/-- the clues handed to `reconcile_nucleus` for one atom (678-689) -/
structure Clue where
  A : Option Int
  Z : Option Int
  E : Option String
  mass : Option Rat
  real : Option Bool
  label : Option String
  deriving Repr, DecidableEq

/-- its answer `(A, Z, E, mass, real, label)` -/
structure Nuc where
  A : Int
  Z : Int
  E : String
  mass : Rat
  real : Bool
  label : String
  deriving Repr, DecidableEq

/-- the processing settings `from_arrays` forwards (685-688; `verbose` does not influence the answer) -/
structure NucSettings where
  speclabel : Bool
  nonphysical : Bool
  mtol : Rat
  deriving Repr, DecidableEq

abbrev Reconciler := NucSettings → Clue → Except Err Nuc

/-- what the model takes from outside: the reconciler and the default Å→a₀ factor
`1.0 / constants.bohr2angstroms` (488) -/
structure Env where
  recon : Reconciler
  angToAu : Rat

/-! ### input and output -/

/-- `fix_com` / `fix_orientation`: `None`, `True`, `False`, or anything else (tested with `is`) -/
inductive Tri where
  | none | tt | ff | other
  deriving Repr, DecidableEq

/-- one entry of `connectivity`; `none` for an atom index = not integer-valued
(`not float(at).is_integer()`); `bad` = not a 3-tuple (`ValueError` on unpacking, 475) -/
inductive BondIn where
  | bad
  | mk (a b : Option Int) (order : Rat)
  deriving Repr, DecidableEq

structure Inp where
  geom : Option (List Rat)                 -- `np.array(geom).ravel()`; `none` = `geom is None`
  elea : Option (List (Option Int))
  elez : Option (List (Option Int))
  elem : Option (List (Option String))
  mass : Option (List (Option Rat))
  real : Option (List (Option Bool))
  elbl : Option (List (Option String))
  name : Option String
  comment : Option String
  units : List Char
  iutau : Option Rat                       -- input_units_to_au
  fixCom : Tri
  fixOrient : Tri
  fixSymm : Option (List Char)
  seps : Option (List Int)                 -- fragment_separators
  fc : Option (List (Option Int))          -- fragment_charges
  fm : Option (List (Option Int))          -- fragment_multiplicities
  c : Option Int
  m : Option Int
  conn : Option (List BondIn)
  -- processing details
  minimal : Bool                           -- missing_enabled_return == 'minimal' (else 'error')
  speclabel : Bool
  nonphysical : Bool
  mtol : Rat
  tooclose : Rat
  zgf : Bool                               -- zero_ghost_fragments
  deriving Repr

abbrev Bond := Nat × Nat × Rat

/-- the validated record (the keys of the returned dict, provenance aside) -/
structure Molrec where
  units : List Char
  iutau : Option Rat
  name : Option String
  comment : Option String
  conn : Option (List Bond)
  geom : List Rat
  elea : List Int
  elez : List Int
  elem : List String
  mass : List Rat
  real : List Bool
  elbl : List String
  seps : List Int
  c : Int
  fc : List Int
  m : Int
  fm : List Int
  fixCom : Bool
  fixOrient : Bool
  fixSymm : Option (List Char)
  deriving Repr, DecidableEq

/-! ### `validate_and_fill_units` (411-501) -/

/-- lexicographic `<=` on `(int, int, float)` tuples — the order `conn.sort()` uses (473) -/
def bondLe (x y : Bond) : Bool :=
  x.1 < y.1 || (x.1 == y.1 && (x.2.1 < y.2.1 || (x.2.1 == y.2.1 && decide (x.2.2 ≤ y.2.2))))

def insertBond (x : Bond) : List Bond → List Bond
  | [] => [x]
  | y :: t => if bondLe x y then x :: y :: t else y :: insertBond x t

/-- `list.sort()` on tuples (a total order, so the sorted list is unique) -/
def sortBonds : List Bond → List Bond
  | [] => []
  | x :: t => insertBond x (sortBonds t)

/-- one pass of the loop body 465-472 -/
def normBond : BondIn → Except Err Bond
  | .bad => .error .validation                                   -- ValueError → ValidationError (475)
  | .mk a b o =>
    match a, b with
    | some a, some b =>
      if a < 0 then .error .validation                             -- 466
      else if b < 0 then .error .validation                        -- 468
      else if o < 0 ∨ o > 5 then .error .validation                -- 470
      else .ok (min a.toNat b.toNat, max a.toNat b.toNat, o)       -- 472
    | _, _ => .error .validation                                   -- not integer-valued

def validateConn : Option (List BondIn) → Except Err (Option (List Bond))
  | none => .ok none
  | some l =>
    match mapE normBond l with
    | .error e => .error e
    | .ok bs => .ok (some (sortBonds bs))

structure UnitsOut where
  units : List Char
  iutau : Option Rat
  conn : Option (List Bond)

def absRat (q : Rat) : Rat := if q < 0 then -q else q

/-- the default conversion factor for validated units (485-488): `1.0` for Bohr, else Å→a₀ -/
def dfltIutau (angToAu : Rat) (units : List Char) : Rat := if units = sBohr then 1 else angToAu

def validateUnits (angToAu : Rat) (i : Inp) : Except Err UnitsOut :=
  match validateConn i.conn with
  | .error e => .error e
  | .ok conn =>
    let u := capitalize i.units
    if u = sAngstrom ∨ u = sBohr then                               -- 480
      let dflt : Rat := dfltIutau angToAu u                         -- 485-488
      match i.iutau with
      | none => .ok { units := u, iutau := none, conn := conn }     -- always_return_iutau=False
      | some x =>
        if absRat (x - dflt) < 1/20 then .ok { units := u, iutau := some x, conn := conn }   -- 491
        else .error .validation
    else .error .validation

/-! ### `validate_and_fill_geometry` (594-616) -/

abbrev R3 := Rat × Rat × Rat

/-- `reshape((-1, 3))`; `none` when the size is not a multiple of 3 (numpy raises `ValueError`,
turned into `ValidationError` at 597-600 and by from_schema.py `_geom_nx3`) -/
def rows3 : List Rat → Option (List R3)
  | [] => some []
  | x :: y :: z :: t =>
    match rows3 t with
    | some r => some ((x, y, z) :: r)
    | none => none
  | _ => none

def dist2 (p q : R3) : Rat :=
  (p.1 - q.1) * (p.1 - q.1) + (p.2.1 - q.2.1) * (p.2.1 - q.2.1) + (p.2.2 - q.2.2) * (p.2.2 - q.2.2)

/-- is some pair `x < y` closer than `tooclose` (`dists < metric`, 607) -/
def anyTooClose (tc : Rat) : List R3 → Bool
  | [] => false
  | p :: t => t.any (fun q => decide (dist2 p q < tc * tc)) || anyTooClose tc t

def validateGeometry (tc : Rat) (g : List Rat) : Except Err (List Rat) :=
  match rows3 g with
  | none => .error .validation                                        -- 597-600
  | some rows => if anyTooClose tc rows then .error .validation else .ok g

/-! ### `validate_and_fill_nuclei` (619-702) -/

/-- `np.asarray([None] * nat)` when the array is not given -/
def fillNone {α} (nat : Nat) : Option (List (Option α)) → List (Option α)
  | none => List.replicate nat none
  | some l => l

/-- `-1 equivalent to None` (638-641) -/
def eleaNorm (l : List (Option Int)) : List (Option Int) :=
  l.map (fun a => if a = some (-1) then none else a)

structure NucArrays where
  elea : List (Option Int)
  elez : List (Option Int)
  elem : List (Option String)
  mass : List (Option Rat)
  real : List (Option Bool)
  elbl : List (Option String)

def nucArrays (nat : Nat) (i : Inp) : NucArrays :=
  { elea := eleaNorm (fillNone nat i.elea), elez := fillNone nat i.elez, elem := fillNone nat i.elem,
    mass := fillNone nat i.mass, real := fillNone nat i.real, elbl := fillNone nat i.elbl }

/-- the keyword arguments of the calls `reconcile_nucleus(A=elea[at], Z=elez[at], …)` for
`at in range(nat)` (676-691): row `at` of the six arrays (all of length `nat` after the shape check) -/
def clues : List (Option Int) → List (Option Int) → List (Option String) → List (Option Rat) →
    List (Option Bool) → List (Option String) → List Clue
  | a :: as, z :: zs, e :: es, m :: ms, r :: rs, l :: ls =>
      { A := a, Z := z, E := e, mass := m, real := r, label := l } :: clues as zs es ms rs ls
  | _, _, _, _, _, _ => []

def nucSettings (i : Inp) : NucSettings :=
  { speclabel := i.speclabel, nonphysical := i.nonphysical, mtol := i.mtol }

def validateNuclei (rc : Reconciler) (nat : Nat) (i : Inp) : Except Err (List Nuc) :=
  let a := nucArrays nat i
  if a.elea.length = nat ∧ a.elez.length = nat ∧ a.elem.length = nat ∧
     a.mass.length = nat ∧ a.real.length = nat ∧ a.elbl.length = nat then        -- 668
    mapE (rc (nucSettings i)) (clues a.elea a.elez a.elem a.mass a.real a.elbl)   -- 676-692
  else .error .validation

/-! ### `np.split` with Python slice semantics, `validate_and_fill_fragments` (705-773) -/

/-- normalisation of one slice bound against length `n`: negative wraps once, then clamps -/
def pyClamp (n : Nat) (i : Int) : Nat := if i < 0 then (i + n).toNat else min i.toNat n

/-- `l[st:en]` -/
def pySlice {α} (l : List α) (st en : Int) : List α :=
  (l.drop (pyClamp l.length st)).take (pyClamp l.length en - pyClamp l.length st)

def splitAux {α} (l : List α) : List Int → List (List α)
  | a :: b :: t => pySlice l a b :: splitAux l (b :: t)
  | _ => []

/-- `np.split(l, seps)`: `div_points = [0] + list(seps) + [len(l)]`, pieces `l[div[i]:div[i+1]]` -/
def npSplit {α} (l : List α) (seps : List Int) : List (List α) :=
  splitAux l ((0 : Int) :: (seps ++ [(l.length : Int)]))

structure FragOut where
  seps : List Int
  fc : List (Option Int)
  fm : List (Option Int)

def validateFragments (nat : Nat) (seps : Option (List Int))
    (fc fm : Option (List (Option Int))) : Except Err FragOut :=
  match seps with
  | none =>
    match fc, fm with
    | none, none => .ok { seps := [], fc := [none], fm := [none] }                    -- 712-715
    | _, _ => .error .validation                                                       -- 717
  | some s =>
    let pieces := npSplit (List.replicate nat ()) s                                    -- 723-725
    if pieces.any (fun f => f.length == 0) ∧ nat ≠ 0 then .error .validation           -- 730-736
    else if (pieces.map List.length).sum ≠ nat then .error .validation                 -- 737-742
    else
      let nfr := pieces.length
      let frc := fc.getD (List.replicate nfr none)                                     -- 746-752
      let frm := fm.getD (List.replicate nfr none)                                     -- 754-764
      if frc.length = s.length + 1 ∧ frm.length = s.length + 1 then                    -- 766
        .ok { seps := s, fc := frc, fm := frm }
      else .error .validation

/-! ### charge / multiplicity on `Z · real` (379-392) -/

/-- `molinit["elez"] * molinit["real"] * 1.0` -/
def zeff (elez : List Int) (real : List Bool) : List Int :=
  List.zipWith (fun z r => if r then z else 0) elez real

def chgmultStage (elez : List Int) (real : List Bool) (fr : FragOut) (c m : Option Int) (zgf : Bool) :
    Except Err ChgMult.Out :=
  match vfc { frags := npSplit (zeff elez real) fr.seps, c := c, fc := fr.fc, m := m, fm := fr.fm, zgf := zgf } with
  | .ok o => .ok o
  | .error .validation => .error .validation
  | .error .malformed => .error (.other "IndexError")    -- unreachable: lengths were checked at 766

/-! ### `validate_and_fill_frame` with `extern = False` (504-547) -/

def frameFlag : Tri → Except Err Bool
  | .tt => .ok true
  | .ff => .ok false
  | .none => .ok false        -- `com = extern`
  | .other => .error .validation

/-- `symm = fix_symmetry.lower()`; `if symm:` drops the empty string (538-545) -/
def frameSymm : Option (List Char) → Option (List Char)
  | none => none
  | some s => if (lower s).isEmpty then none else some (lower s)

/-! ### the merge -/

inductive Key where
  | name | comment | provenance | connectivity | units | input_units_to_au
  | geom
  | elea | elez | elem | mass | real | elbl
  | fragment_separators | fragment_charges | fragment_multiplicities
  | molecular_charge | molecular_multiplicity
  | fix_com | fix_orientation | fix_symmetry
  deriving Repr, DecidableEq

/-- keys of the dictionaries merged by `update_with_error`, in call order (338, 353, 369, 377
minus the two keys deleted at 390-391, 392, 399) -/
def stageKeys : List (List Key) :=
  [ [.name, .comment, .provenance, .connectivity, .units, .input_units_to_au],
    [.geom],
    [.elea, .elez, .elem, .mass, .real, .elbl],
    [.fragment_separators],            -- fragment_charges / fragment_multiplicities are deleted again
    [.molecular_charge, .fragment_charges, .molecular_multiplicity, .fragment_multiplicities],
    [.fix_com, .fix_orientation, .fix_symmetry] ]

/-- no key is produced by two stages: `update_with_error` never meets an existing key, so it is
`dict.update` and cannot raise -/
theorem stageKeys_disjoint : stageKeys.flatten.Nodup := by decide

/-! ### `from_arrays` -/

/-- 308-314: `geom is None or np.asarray(geom).size == 0` → `[]` under `'minimal'`, else refusal -/
def missingGeom (i : Inp) : Except Err (List Rat) :=
  match i.geom with
  | some (x :: t) => .ok (x :: t)
  | _ => if i.minimal then .ok [] else .error .validation

def fromArrays (env : Env) (i : Inp) : Except Err Molrec :=
  match missingGeom i with
  | .error e => .error e
  | .ok g0 =>
  match validateUnits env.angToAu i with
  | .error e => .error e
  | .ok u =>
  match validateGeometry i.tooclose g0 with
  | .error e => .error e
  | .ok g =>
  let nat := g.length / 3                                             -- 354
  match validateNuclei env.recon nat i with
  | .error e => .error e
  | .ok nucs =>
  match validateFragments nat i.seps i.fc i.fm with
  | .error e => .error e
  | .ok fr =>
  let elez := nucs.map (·.Z)
  let real := nucs.map (·.real)
  match chgmultStage elez real fr i.c i.m i.zgf with
  | .error e => .error e
  | .ok cm =>
  match frameFlag i.fixCom with
  | .error e => .error e
  | .ok com =>
  match frameFlag i.fixOrient with
  | .error e => .error e
  | .ok orient =>
  .ok { units := u.units, iutau := u.iutau, name := i.name, comment := i.comment, conn := u.conn
        geom := g
        elea := nucs.map (·.A), elez := elez, elem := nucs.map (·.E), mass := nucs.map (·.mass)
        real := real, elbl := nucs.map (·.label)
        seps := fr.seps
        c := cm.c, fc := cm.fc, m := cm.m, fm := cm.fm
        fixCom := com, fixOrient := orient, fixSymm := frameSymm i.fixSymm }

/-! ### feeding a record back (`from_arrays(speclabel=False, **rec)`) -/

def Tri.ofBool (b : Bool) : Tri := if b then .tt else .ff

def bondBack (b : Bond) : BondIn := .mk (some (b.1 : Int)) (some (b.2.1 : Int)) b.2.2

/-- the record as keyword arguments, with the processing details of the original call except
`speclabel := False` (the record's `elbl` is the user part of the label only) and
`zero_ghost_fragments := False` (the default) -/
def asInput (i : Inp) (r : Molrec) : Inp :=
  { geom := some r.geom
    elea := some (r.elea.map some), elez := some (r.elez.map some), elem := some (r.elem.map some)
    mass := some (r.mass.map some), real := some (r.real.map some), elbl := some (r.elbl.map some)
    name := r.name, comment := r.comment, units := r.units, iutau := r.iutau
    fixCom := Tri.ofBool r.fixCom, fixOrient := Tri.ofBool r.fixOrient, fixSymm := r.fixSymm
    seps := some r.seps, fc := some (r.fc.map some), fm := some (r.fm.map some)
    c := some r.c, m := some r.m
    conn := r.conn.map (·.map bondBack)
    minimal := i.minimal, speclabel := false, nonphysical := i.nonphysical, mtol := i.mtol
    tooclose := i.tooclose, zgf := false }

/-! ### `from_schema` (from_schema.py:10-95) and `contiguize_from_fragment_pattern` (98-194) -/

/-- the schema dictionary as far as `from_schema` reads it.  `body` carries the per-atom arrays and
scalars under their `from_arrays` names (`symbols→elem`, `geometry→geom`, `mass_numbers→elea`,
`atomic_numbers→elez`, `masses→mass`, `atom_labels→elbl`); its `units`, `iutau`, `seps`,
`speclabel`, `minimal`, `zgf` are ignored (from_schema fixes them) -/
structure Schema where
  schemaName : Option (List Char)        -- `molschema.get("schema_name", "")`
  schemaVersion : Option Int             -- `molschema.get("schema_version", "")`
  fragments : Option (List (List Nat))   -- `ms["fragments"]` if present
  body : Inp
  deriving Repr

def cumsum : Nat → List Nat → List Nat
  | _, [] => []
  | acc, k :: t => (acc + k) :: cumsum (acc + k) t

/-- length check of `reorder` for one optional per-atom array -/
def lenOk {α} (nat : Nat) : Option (List α) → Bool
  | none => true
  | some l => l.length == nat

structure Contig where
  seps : List Int

/-- `contiguize_from_fragment_pattern(..., throw_reorder=True)`; the arrays come back in the
same order (any reordering is refused), so only the separators and the refusals are modelled.
Both the "skips atoms" test (`sort(concatenate(pattern)) != arange(nat)`) and the refused
reordering (`concatenate(pattern) != arange(nat)` with `throw_reorder`) raise `ValidationError`,
and the second test subsumes the first, so they are one branch here. -/
def contiguize (pattern : List (List Nat)) (b : Inp) : Except Err Contig :=
  let vsplt := cumsum 0 (pattern.map List.length)                       -- cumsum of fragment sizes
  let nat := vsplt.getLastD 0                                           -- (pattern is non-empty)
  let seps := (vsplt.dropLast).map (fun (k : Nat) => (k : Int))
  let g := b.geom.getD []
  if seps.isEmpty ∧ pattern.headD [] = List.range nat then              -- single fragment == arange(nat)
    match rows3 g with
    | none => .error .validation                                        -- `_geom_nx3`
    | some rows => if rows.length ≠ nat then .error .validation else .ok { seps := seps }   -- dropped atoms
  else if pattern.flatten ≠ List.range nat then .error .validation      -- skips atoms / reorder refused
  else
    match rows3 g with
    | none => .error .validation                                        -- `_geom_nx3`
    | some rows =>
      if rows.length ≠ nat then .error .validation                      -- dropped atoms
      else if lenOk nat b.elea && lenOk nat b.elez && lenOk nat b.elem && lenOk nat b.mass
              && lenOk nat b.real && lenOk nat b.elbl then .ok { seps := seps }
      else .error .validation                                           -- wrong number of atoms in array

/-- the Python default `tooclose=0.1` as the double it is -/
def dfltTooclose : Rat := 3602879701896397 / 36028797018963968
/-- the Python default `mtol=1.0e-3` as the double it is -/
def dfltMtol : Rat := 1152921504606847 / 1152921504606846976

def fromSchema (env : Env) (s : Schema) : Except Err Molrec :=
  let nm := s.schemaName.getD []
  let recognised :=
    ((startsWith nm "qc_schema".toList || startsWith nm "qcschema".toList) && s.schemaVersion == some 1)
    || (startsWith nm "qcschema_molecule".toList && s.schemaVersion == some 2)          -- 29-41
  if !recognised then .error .validation
  else
    let pattern := s.fragments.getD [List.range ((s.body.elem.getD []).length)]          -- 43-46
    match contiguize pattern s.body with
    | .error e => .error e
    | .ok cg =>
      fromArrays env { s.body with                                                        -- 60-90
        units := sBohr, iutau := none, seps := some cg.seps
        minimal := false, speclabel := false, zgf := false
        mtol := dfltMtol, tooclose := dfltTooclose }

/-! ### `to_schema` for `dtype ∈ {1, 2}`, `units='Bohr'`, on a record in Bohr (to_schema.py:66-100) -/

/-- the schema `to_schema` writes for a Bohr record; `formula` is `formula_generator(elem)`
(the default `name`, 53) -/
def toSchema (formula : List String → String) (r : Molrec) (dtype : Int) : Schema :=
  let nat := r.geom.length / 3
  { schemaName := some (if dtype = 1 then "qcschema_input".toList else "qcschema_molecule".toList)
    schemaVersion := some dtype
    fragments := some (npSplit (List.range nat) r.seps)                                   -- 84-85
    body :=
      { geom := some r.geom
        elea := some (r.elea.map some), elez := some (r.elez.map some), elem := some (r.elem.map some)
        mass := some (r.mass.map some), real := some (r.real.map some), elbl := some (r.elbl.map some)
        name := some (r.name.getD (formula r.elem)), comment := r.comment
        units := sBohr, iutau := none
        fixCom := Tri.ofBool r.fixCom, fixOrient := Tri.ofBool r.fixOrient, fixSymm := r.fixSymm
        seps := none, fc := some (r.fc.map some), fm := some (r.fm.map some)
        c := some r.c, m := some r.m
        conn := r.conn.map (·.map bondBack)
        minimal := false, speclabel := false, nonphysical := false, mtol := dfltMtol
        tooclose := dfltTooclose, zgf := false } }

end QcelVerif.FromArrays
