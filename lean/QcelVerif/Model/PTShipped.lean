import QcelVerif.Model.PeriodicTable
import QcelVerif.Gen.PT
/-! The shipped tables (generated from `/repo` on every run) as a `Tables` value. -/
namespace QcelVerif.PT
open QcelVerif
def shipped : Tables := { eliso := Gen.PT.tree, elements := Gen.PT.elements }
end QcelVerif.PT
