/-
A small statement / expression AST for the *bodies* of the C20 validators, and its evaluator.  Core Lean only; imports
nothing.  `harness/c20_flow.py` reads results.py / procedures.py / basis.py by `ast` and prints every validator body
as a term of `Stmt` into `Gen/ProtocolsFlow.lean` (anything it cannot express is a translator error).

Values are flat, as the values these validators handle are: a scalar (`None`, bool, int, str, a dict key, an opaque
object), a list of scalars (Python list / set / dict view), or a dict from keys `κ` to scalars (a finite map given by
its key list, used only for iteration, and its lookup function).  What the evaluator knows about Python:
  * `if / elif / else`, `for x in <list>` / `for k, v in d.items()` with `continue`, `return`, `raise C`,
    `try … except C`, sequencing; assignment to a name, `d[k] = v`, `d.pop(k)`, `n += e`;
  * `is` / `is not` against None / True / False, `==` `!=` `>` on str / int / bool / None, `in` / `not in` on dicts and
    lists, truthiness of bool / None / list / int;
  * `len`, `sum`, `list`, `set`, generator expressions, `+ - * //` on ints, `+` on lists, `set - keys`;
  * `x[i]` with Python's negative indices on lists (`IndexError`), `d[k]` (`KeyError`), `d.get(k, None)`, `.keys()`,
    `.copy()`, `.endswith(s)`, `isinstance(v, dict)`, `values["f"]` (`KeyError` when the field failed) and
    `"f" in values`, attribute access and method calls on opaque objects through the domain `Dom`.
Anything else is `Exc.stuck` — the theorems of Props/C20Flow.lean show the evaluator never gets stuck on the inputs of
the models.  Modelling decisions: a set is the list of its elements (only emptiness / membership is observed); a dict is
iterated in the order of its key list (the loops of these validators are order-independent).
-/
namespace QcelVerif.Flow

inductive Cmp where
  | eq | ne | gt | is | isNot | isIn | notIn
  deriving Repr, DecidableEq

inductive Bin where
  | add | sub | mul | floordiv
  deriving Repr, DecidableEq

inductive Expr where
  | none | bool (b : Bool) | int (i : Int) | str (s : String)
  | var (n : String)
  | values (k : String)                       -- `values["k"]`
  | inValues (k : String)                     -- `"k" in values`
  | nil | cons (h t : Expr)                   -- list literal `[h, …t]`
  | dictNil | dictCons (k v rest : Expr)      -- dict literal `{k: v, …rest}`
  | attr (e : Expr) (a : String)              -- `e.a`
  | index (e i : Expr)                        -- `e[i]`
  | call (f : String) (a : Expr)              -- `len(a)`, `sum(a)`, `list(a)`, `set(a)`
  | ext1 (f : String) (a : Expr)              -- `obj.f()` : another translated function, `obj` as its argument
  | ext2 (f : String) (a b : Expr)            -- `cls.f(a, b)` : another translated function
  | meth0 (o : Expr) (m : String)             -- `o.keys()`, `o.copy()`, `o.dict()`
  | meth1 (o : Expr) (m : String) (a : Expr)  -- `o.get(a, None)`, `o.endswith(a)`
  | cmp (op : Cmp) (a b : Expr)
  | bin (op : Bin) (a b : Expr)
  | gen (elt : Expr) (v : String) (it : Expr) -- `(elt for v in it)`
  | isinst (e : Expr) (cls : String)
  deriving Repr, DecidableEq

inductive Stmt where
  | pass | continue
  | assign (n : String) (e : Expr)
  | setItem (n : String) (k v : Expr)         -- `n[k] = v`
  | pop (n : String) (k : Expr)               -- `n.pop(k)`
  | augAdd (n : String) (e : Expr)            -- `n += e`
  | ite (c : Expr) (t f : Stmt)
  | for1 (v : String) (it : Expr) (body : Stmt)
  | for2 (k v : String) (d : Expr) (body : Stmt)   -- `for k, v in d.items()`
  | ret (e : Expr)
  | raise (cls : String)
  | try (body : Stmt) (cls : String) (handler : Stmt)
  | seq (a b : Stmt)
  deriving Repr, DecidableEq

/-! ## values -/

inductive Sc (κ α : Type) where
  | none | bool (b : Bool) | int (i : Int) | str (s : String) | key (k : κ) | atom (a : α)

inductive Val (κ α : Type) where
  | sc (s : Sc κ α)
  | list (l : List (Sc κ α))
  | dict (keys : List κ) (get : κ → Option (Sc κ α))

inductive Exc where
  | raise (cls : String)
  | stuck
  deriving Repr, DecidableEq

abbrev ER (κ α : Type) := Except Exc (Val κ α)

/-- what the evaluator needs to know about the objects of one validator -/
structure Dom (κ α : Type) where
  /-- a string used as a dict key -/
  keyOf : String → Option κ
  /-- the string a key is (for `.endswith`) -/
  nameOf : κ → String
  /-- attribute of an opaque object -/
  attr : α → String → Option (Val κ α)
  /-- `len(obj)` of an opaque object -/
  len : α → Option Nat
  /-- `isinstance(obj, cls)` -/
  isinst : α → String → Bool
  /-- another translated function -/
  ext : String → List (Val κ α) → ER κ α

abbrev Env (κ α : Type) := String → Option (Val κ α)

def Env.set {κ α : Type} (e : Env κ α) (n : String) (v : Val κ α) : Env κ α :=
  fun m => if m = n then some v else e m

def Env.empty {κ α : Type} : Env κ α := fun _ => Option.none

section
variable {κ α : Type} [DecidableEq κ]

def andThen (x : ER κ α) (f : Val κ α → ER κ α) : ER κ α :=
  match x with
  | .ok v => f v
  | .error e => .error e

omit [DecidableEq κ] in
@[simp] theorem andThen_ok (v : Val κ α) (f : Val κ α → ER κ α) : andThen (.ok v) f = f v := rfl
omit [DecidableEq κ] in
@[simp] theorem andThen_error (e : Exc) (f : Val κ α → ER κ α) : andThen (.error e : ER κ α) f = .error e := rfl

def toKey (d : Dom κ α) : Sc κ α → Option κ
  | .key k => some k
  | .str s => d.keyOf s
  | _ => Option.none

/-- `==` on scalars (objects are not compared) -/
def scEq : Sc κ α → Sc κ α → Option Bool
  | .none, .none => some true
  | .bool a, .bool b => some (a == b)
  | .int a, .int b => some (a == b)
  | .str a, .str b => some (a == b)
  | .key a, .key b => some (decide (a = b))
  | .atom _, _ => Option.none
  | _, .atom _ => Option.none
  | _, _ => some false

/-- `is` : only against the singletons None / True / False -/
def scIs : Sc κ α → Sc κ α → Option Bool
  | .none, .none => some true
  | .bool a, .bool b => some (a == b)
  | .none, _ => some false
  | _, .none => some false
  | .bool _, _ => some false
  | _, .bool _ => some false
  | _, _ => Option.none

def isMember (d : Dom κ α) (x : Sc κ α) : Val κ α → Option Bool
  | .dict _ get => some (match toKey d x with | some k => (get k).isSome | Option.none => false)
  | .list l => some (l.any (fun y => scEq x y == some true))
  | .sc _ => Option.none

def cmpV (d : Dom κ α) (op : Cmp) (a b : Val κ α) : ER κ α :=
  let ofOpt : Option Bool → ER κ α := fun o => match o with | some r => .ok (.sc (.bool r)) | Option.none => .error .stuck
  match op with
  | .isIn => (match a with | .sc x => ofOpt (isMember d x b) | _ => .error .stuck)
  | .notIn => (match a with | .sc x => ofOpt ((isMember d x b).map (!·)) | _ => .error .stuck)
  | .is =>
    (match a, b with
     | .sc x, .sc y => ofOpt (scIs x y)
     | .sc .none, _ => .ok (.sc (.bool false))
     | _, .sc .none => .ok (.sc (.bool false))
     | _, _ => .error .stuck)
  | .isNot =>
    (match a, b with
     | .sc x, .sc y => ofOpt ((scIs x y).map (!·))
     | .sc .none, _ => .ok (.sc (.bool true))
     | _, .sc .none => .ok (.sc (.bool true))
     | _, _ => .error .stuck)
  | .eq => (match a, b with | .sc x, .sc y => ofOpt (scEq x y) | _, _ => .error .stuck)
  | .ne => (match a, b with | .sc x, .sc y => ofOpt ((scEq x y).map (!·)) | _, _ => .error .stuck)
  | .gt => (match a, b with | .sc (.int x), .sc (.int y) => .ok (.sc (.bool (decide (x > y)))) | _, _ => .error .stuck)

def binV (d : Dom κ α) (op : Bin) (a b : Val κ α) : ER κ α :=
  match op, a, b with
  | .add, .sc (.int x), .sc (.int y) => .ok (.sc (.int (x + y)))
  | .sub, .sc (.int x), .sc (.int y) => .ok (.sc (.int (x - y)))
  | .mul, .sc (.int x), .sc (.int y) => .ok (.sc (.int (x * y)))
  | .floordiv, .sc (.int x), .sc (.int y) => if y = 0 then .error (.raise "ZeroDivisionError") else .ok (.sc (.int (x / y)))
  | .add, .list x, .list y => .ok (.list (x ++ y))
  /- `set - dict.keys()` / `set - set` -/
  | .sub, .list x, .dict _ get =>
      .ok (.list (x.filter (fun s => match toKey d s with | some k => (get k).isNone | Option.none => true)))
  | .sub, .list x, .list y => .ok (.list (x.filter (fun s => !(y.any (fun t => scEq s t == some true)))))
  | _, _, _ => .error .stuck

def sumInts : List (Sc κ α) → Option Int
  | [] => some 0
  | .int i :: r => (sumInts r).map (i + ·)
  | _ :: _ => Option.none

def dictKeys (keys : List κ) (get : κ → Option (Sc κ α)) : List κ := keys.filter (fun k => (get k).isSome)

def callV (d : Dom κ α) (f : String) (a : Val κ α) : ER κ α :=
  if f = "len" then
    (match a with
     | .list l => .ok (.sc (.int l.length))
     | .dict keys get => .ok (.sc (.int (dictKeys keys get).length))
     | .sc (.atom o) => (match d.len o with | some n => .ok (.sc (.int n)) | Option.none => .error .stuck)
     | _ => .error .stuck)
  else if f = "sum" then
    (match a with
     | .list l => (match sumInts l with | some s => .ok (.sc (.int s)) | Option.none => .error .stuck)
     | _ => .error .stuck)
  else if f = "list" ∨ f = "set" then
    (match a with
     | .list l => .ok (.list l)
     | .dict keys get => .ok (.list ((dictKeys keys get).map Sc.key))
     | _ => .error .stuck)
  else .error .stuck

/-- Python list indexing with negative indices -/
def pyIndex {τ : Type} (l : List τ) (i : Int) : Option τ :=
  if i ≥ 0 then l[i.toNat]? else if (-i).toNat ≤ l.length then l[l.length - (-i).toNat]? else Option.none

def indexV (d : Dom κ α) (a i : Val κ α) : ER κ α :=
  match a, i with
  | .list l, .sc (.int n) => (match pyIndex l n with | some x => .ok (.sc x) | Option.none => .error (.raise "IndexError"))
  | .dict _ get, .sc s =>
    (match toKey d s with
     | some k => (match get k with | some x => .ok (.sc x) | Option.none => .error (.raise "KeyError"))
     | Option.none => (match s with | .str _ => .error (.raise "KeyError") | _ => .error .stuck))
  | _, _ => .error .stuck

def attrV (d : Dom κ α) (a : Val κ α) (n : String) : ER κ α :=
  match a with
  | .sc (.atom o) => (match d.attr o n with | some v => .ok v | Option.none => .error .stuck)
  | _ => .error .stuck

def meth0V (a : Val κ α) (m : String) : ER κ α :=
  match a with
  | .dict keys get =>
    if m = "copy" then .ok (.dict keys get)
    else if m = "keys" then .ok (.list ((dictKeys keys get).map Sc.key))
    else .error .stuck
  | _ => .error .stuck

def endsWithL (s suf : String) : Bool := suf.toList.isSuffixOf s.toList

def meth1V (d : Dom κ α) (a : Val κ α) (m : String) (x : Val κ α) : ER κ α :=
  match a, x with
  | .dict _ get, .sc s =>
    if m = "get" then
      .ok (.sc (match toKey d s with | some k => (get k).getD .none | Option.none => .none))
    else .error .stuck
  | .sc (.key k), .sc (.str suf) => if m = "endswith" then .ok (.sc (.bool (endsWithL (d.nameOf k) suf))) else .error .stuck
  | .sc (.str s), .sc (.str suf) => if m = "endswith" then .ok (.sc (.bool (endsWithL s suf))) else .error .stuck
  | _, _ => .error .stuck

def isinstV (d : Dom κ α) (a : Val κ α) (cls : String) : Bool :=
  match a with
  | .dict _ _ => cls == "dict"
  | .list _ => cls == "list"
  | .sc (.atom o) => d.isinst o cls
  | .sc _ => false

def truthy : Val κ α → Option Bool
  | .sc (.bool b) => some b
  | .sc .none => some false
  | .sc (.int i) => some (i != 0)
  | .list l => some (!l.isEmpty)
  | _ => Option.none

def asScList (v : Val κ α) : Option (List (Sc κ α)) :=
  match v with
  | .list l => some l
  | _ => Option.none

/-- `(elt for v in it)` -/
def genList (f : Sc κ α → ER κ α) : List (Sc κ α) → ER κ α
  | [] => .ok (.list [])
  | x :: xs =>
    match f x with
    | .ok (.sc y) => (match genList f xs with | .ok (.list r) => .ok (.list (y :: r)) | .ok _ => .error .stuck | .error e => .error e)
    | .ok _ => .error .stuck
    | .error e => .error e

def eval (d : Dom κ α) (vals : String → Option (Val κ α)) : Expr → Env κ α → ER κ α
  | .none, _ => .ok (.sc .none)
  | .bool b, _ => .ok (.sc (.bool b))
  | .int i, _ => .ok (.sc (.int i))
  | .str s, _ => .ok (.sc (.str s))
  | .var n, env => (match env n with | some v => .ok v | Option.none => .error .stuck)
  | .values k, _ => (match vals k with | some v => .ok v | Option.none => .error (.raise "KeyError"))
  | .inValues k, _ => .ok (.sc (.bool (vals k).isSome))
  | .nil, _ => .ok (.list [])
  | .cons h t, env =>
    andThen (eval d vals h env) fun hv => andThen (eval d vals t env) fun tv =>
      (match hv, tv with | .sc x, .list l => .ok (.list (x :: l)) | _, _ => .error .stuck)
  | .dictNil, _ => .ok (.dict [] (fun _ => Option.none))
  | .dictCons k v rest, env =>
    andThen (eval d vals k env) fun kv => andThen (eval d vals v env) fun vv => andThen (eval d vals rest env) fun rv =>
      (match kv, vv, rv with
       | .sc ks, .sc x, .dict keys get =>
         (match toKey d ks with
          | some k' => .ok (.dict (k' :: keys) (fun j => if j = k' then some x else get j))
          | Option.none => .error .stuck)
       | _, _, _ => .error .stuck)
  | .attr e a, env => andThen (eval d vals e env) fun v => attrV d v a
  | .index e i, env => andThen (eval d vals e env) fun v => andThen (eval d vals i env) fun iv => indexV d v iv
  | .call f a, env => andThen (eval d vals a env) fun v => callV d f v
  | .ext1 f a, env => andThen (eval d vals a env) fun x => d.ext f [x]
  | .ext2 f a b, env => andThen (eval d vals a env) fun x => andThen (eval d vals b env) fun y => d.ext f [x, y]
  | .meth0 o m, env => andThen (eval d vals o env) fun v => meth0V v m
  | .meth1 o m a, env => andThen (eval d vals o env) fun v => andThen (eval d vals a env) fun x => meth1V d v m x
  | .cmp op a b, env => andThen (eval d vals a env) fun x => andThen (eval d vals b env) fun y => cmpV d op x y
  | .bin op a b, env => andThen (eval d vals a env) fun x => andThen (eval d vals b env) fun y => binV d op x y
  | .gen elt v it, env =>
    andThen (eval d vals it env) fun l =>
      (match l with
       | .list l => genList (fun x => eval d vals elt (env.set v (.sc x))) l
       | _ => .error .stuck)
  | .isinst e cls, env => andThen (eval d vals e env) fun v => .ok (.sc (.bool (isinstV d v cls)))

/-! ## statements -/

inductive Out (κ α : Type) where
  | next (e : Env κ α)
  | cont (e : Env κ α)
  | ret (v : Val κ α)
  | exc (x : Exc)

/-- the body of a `for` over the items `l`; `continue` and normal completion go on, `return` / exceptions leave -/
def forLoop {τ : Type} (step : τ → Env κ α → Out κ α) : List τ → Env κ α → Out κ α
  | [], env => .next env
  | x :: xs, env =>
    match step x env with
    | .next e => forLoop step xs e
    | .cont e => forLoop step xs e
    | o => o

def dictItems (keys : List κ) (get : κ → Option (Sc κ α)) : List (κ × Sc κ α) :=
  keys.filterMap (fun k => (get k).map (fun v => (k, v)))

def exec (d : Dom κ α) (vals : String → Option (Val κ α)) : Stmt → Env κ α → Out κ α
  | .pass, env => .next env
  | .continue, env => .cont env
  | .assign n e, env => (match eval d vals e env with | .ok v => .next (env.set n v) | .error x => .exc x)
  | .setItem n k v, env =>
    (match env n, eval d vals k env, eval d vals v env with
     | some (.dict keys get), .ok (.sc ks), .ok (.sc x) =>
       (match toKey d ks with
        | some k' => .next (env.set n (.dict (if keys.contains k' then keys else keys ++ [k'])
                                            (fun j => if j = k' then some x else get j)))
        | Option.none => .exc .stuck)
     | _, .error x, _ => .exc x
     | _, _, .error x => .exc x
     | _, _, _ => .exc .stuck)
  | .pop n k, env =>
    (match env n, eval d vals k env with
     | some (.dict keys get), .ok (.sc ks) =>
       (match toKey d ks with
        | some k' =>
          if (get k').isSome then .next (env.set n (.dict keys (fun j => if j = k' then Option.none else get j)))
          else .exc (.raise "KeyError")
        | Option.none => .exc (.raise "KeyError"))
     | _, .error x => .exc x
     | _, _ => .exc .stuck)
  | .augAdd n e, env =>
    (match env n, eval d vals e env with
     | some a, .ok b => (match binV d .add a b with | .ok v => .next (env.set n v) | .error x => .exc x)
     | _, .error x => .exc x
     | Option.none, _ => .exc .stuck)
  | .ite c t f, env =>
    (match eval d vals c env with
     | .ok v => (match truthy v with
        | some true => exec d vals t env
        | some false => exec d vals f env
        | Option.none => .exc .stuck)
     | .error x => .exc x)
  | .for1 v it body, env =>
    (match eval d vals it env with
     | .ok (.list l) => forLoop (fun x e => exec d vals body (e.set v (.sc x))) l env
     | .ok _ => .exc .stuck
     | .error x => .exc x)
  | .for2 k v dct body, env =>
    (match eval d vals dct env with
     | .ok (.dict keys get) =>
       forLoop (fun (kv : κ × Sc κ α) e => exec d vals body ((e.set k (.sc (.key kv.1))).set v (.sc kv.2))) (dictItems keys get) env
     | .ok _ => .exc .stuck
     | .error x => .exc x)
  | .ret e, env => (match eval d vals e env with | .ok v => .ret v | .error x => .exc x)
  | .raise c, _ => .exc (.raise c)
  | .try body c handler, env =>
    (match exec d vals body env with
     | .exc (.raise c') => if c' = c then exec d vals handler env else .exc (.raise c')
     | o => o)
  | .seq a b, env =>
    (match exec d vals a env with
     | .next e => exec d vals b e
     | o => o)

/-- call a translated function: its body on the initial bindings of its parameters -/
def run (d : Dom κ α) (vals : String → Option (Val κ α)) (body : Stmt) (env : Env κ α) : ER κ α :=
  match exec d vals body env with
  | .ret v => .ok v
  | .next _ => .ok (.sc .none)          -- falls off the end: returns None
  | .cont _ => .error .stuck
  | .exc x => .error x

end

/-- a function as the translator found it -/
structure FnDecl where
  cls : String
  name : String
  params : List String
  body : Stmt
  deriving Repr

end QcelVerif.Flow
