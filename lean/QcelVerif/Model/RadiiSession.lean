import QcelVerif.Model.Radii
/-
Model of a *session* on a radius object (C17, call sequences): the public calls of
`CovalentRadii` / `VanderWaalsRadii`, with the table (`self.cr` / `self.vdwr`) threaded as STATE
the way Python threads `self`.  Core Lean only.

  * `get`                    (covalent_radii.py:76-141, vanderwaals_radii.py:62-125)  -> `getU`, table untouched
  * `write_c_header`         (covalent_radii.py:148-186, vanderwaals_radii.py:132-170) -> `headerRows`
        `for el in periodictable.E: try: qca = self.cr[el] ... except KeyError: <format missing>`:
        the `missing` argument only appears in the text; nothing is assigned to the table
  * `string_representation`  (covalent_radii.py:143-146 -> datum.py:109-170 print_variables) -> reads every entry
  * `__str__`                (covalent_radii.py:73-74)                                  -> reads `self.name`

None of these methods contains an assignment to the table or to a stored Datum (Datum is frozen,
datum.py:46-49): that is what `Call.exec` records by returning the table it was given.
-/
namespace QcelVerif.Radii
open QcelVerif QcelVerif.PStr QcelVerif.PT

/-- one row of the C array written by `write_c_header` -/
inductive HeaderRow where
  /-- `self.cr[el]` found: data, units, label, comment of the stored Datum are printed -/
  | entry (d : Datum)
  /-- KeyError: the caller's `missing` is printed for element `el`; nothing is stored -/
  | filler (el : Nat) (missing : Rat)
  deriving DecidableEq, Repr

/-- the loop over `periodictable.E` (element symbols in file order) -/
def headerRows (T : Tables) (t : Table) (missing : Rat) : List HeaderRow :=
  T.elements.map fun r =>
    match lookupK t r.2.1 with
    | some d => .entry d
    | none => .filler r.2.1 missing

/-- the public calls -/
inductive Call where
  | get (a : PyVal) (returnTuple : Bool) (units : Option Bytes) (missing : Option Rat)
  | writeCHeader (missing : Rat)
  | stringRepresentation
  | str

/-- what the caller sees -/
inductive Reply where
  | out (r : Except Err Out)
  | header (rows : List HeaderRow)
  /-- `print_variables(self.cr)`: the entries (the text sorts them by key) -/
  | listing (entries : Table)
  | name

/-- one call on an object whose table is `t`: (table afterwards, reply) -/
def Call.exec (T : Tables) (convF : Bytes → Bytes → Option Rat) (t : Table) : Call → Table × Reply
  | .get a rt u m => (t, .out (getU T t convF a rt u m))
  | .writeCHeader m => (t, .header (headerRows T t m))
  | .stringRepresentation => (t, .listing t)
  | .str => (t, .name)

/-- a sequence of calls on the same object, in order -/
def runCalls (T : Tables) (convF : Bytes → Bytes → Option Rat) : Table → List Call → Table × List Reply
  | t, [] => (t, [])
  | t, c :: cs =>
    let s := c.exec T convF t
    let rest := runCalls T convF s.1 cs
    (rest.1, s.2 :: rest.2)

end QcelVerif.Radii
