/-
Model of `qcelemental/molutil/molecular_formula.py` (C15):
`molecular_formula_from_symbols` (39-75) and `order_molecular_formula` (6-36), and of the
`chgmult` decoration in `Molecule.get_molecular_formula` (models/molecule.py:880-894).
Core Lean only.  ASCII scope (str.title / `[A-Z]` / `\d` on ASCII text).

The counting/ordering part is generic in the key type `κ` and the order `le` (the theorems need
only that `le` is a total preorder); the driver runs it at `κ = String` with code-point order.
-/
namespace QcelVerif.Formula

inductive Order where
  | alphabetical | hill
  deriving Repr, DecidableEq

section generic
variable {κ : Type} [DecidableEq κ]

/-- keys of `collections.Counter(...)` in first-seen order -/
def dedupKeys : List κ → List κ
  | [] => []
  | x :: t => x :: (dedupKeys t).filter (· != x)

/-- `sorted(count.keys())` (61) -/
def sortedKeys (le : κ → κ → Bool) (syms : List κ) : List κ := (dedupKeys syms).mergeSort le

/-- Hill rearrangement (63-66): `H` to the front if present, then `C` to the front -/
def hillOrder (C H : κ) (o : List κ) : List κ :=
  if C ∈ o then
    let o1 := if H ∈ o then H :: o.erase H else o      -- insert(0, pop(index("H")))
    C :: o1.erase C                                    -- insert(0, pop(index("C")))
  else o

def elementOrder (le : κ → κ → Bool) (C H : κ) (ord : Order) (syms : List κ) : List κ :=
  match ord with
  | .alphabetical => sortedKeys le syms
  | .hill => hillOrder C H (sortedKeys le syms)

/-- the formula as (element, count) tokens in output order (68-73) -/
def tokens (le : κ → κ → Bool) (C H : κ) (ord : Order) (syms : List κ) : List (κ × Nat) :=
  (elementOrder le C H ord syms).map (fun k => (k, syms.count k))

/-- `[k for k, v in count.items() for i in range(v)]` (35) -/
def expand (toks : List (κ × Nat)) : List κ := toks.flatMap (fun t => List.replicate t.2 t.1)

end generic

/-! ### strings -/

def isAsciiUpper (c : Char) : Bool := 'A' ≤ c && c ≤ 'Z'
def isAsciiLower (c : Char) : Bool := 'a' ≤ c && c ≤ 'z'
def isAsciiDigit (c : Char) : Bool := '0' ≤ c && c ≤ '9'
def upperC (c : Char) : Char := if isAsciiLower c then Char.ofNat (c.toNat - 32) else c
def lowerC (c : Char) : Char := if isAsciiUpper c then Char.ofNat (c.toNat + 32) else c

/-- `str.title()` on ASCII: a cased letter is upper-cased when the previous character is not a
cased letter, lower-cased otherwise; other characters are copied -/
def titleChars : Bool → List Char → List Char
  | _, [] => []
  | prev, c :: t =>
    if isAsciiUpper c || isAsciiLower c then (if prev then lowerC c else upperC c) :: titleChars true t
    else c :: titleChars false t

def title (s : String) : String := String.ofList (titleChars false s.toList)

def strLe (a b : String) : Bool := decide (a ≤ b)

/-- `order.lower()` must be one of the supported orders (56-59); `none` = ValueError -/
def parseOrder (s : String) : Option Order :=
  let l := String.ofList (s.toList.map lowerC)
  if l == "alphabetical" then some .alphabetical else if l == "hill" then some .hill else none

def render (toks : List (String × Nat)) : String :=
  String.join (toks.map (fun t => if t.2 > 1 then t.1 ++ toString t.2 else t.1))

/-- `molecular_formula_from_symbols(symbols, order)` -/
def fromSymbols (syms : List String) (ord : Order) : String :=
  render (tokens strLe "C" "H" ord (syms.map title))

/-- `re.findall(r"[A-Z][^A-Z]*", s)`: cut before every upper-case letter; the text before the
first upper-case letter is not matched (returned separately) -/
def cutUpper : List Char → List Char × List (List Char)
  | [] => ([], [])
  | c :: t =>
    let (pre, ms) := cutUpper t
    if isAsciiUpper c then ([], (c :: pre) :: ms) else (c :: pre, ms)

def digitsVal (l : List Char) : Nat := l.foldl (fun n c => n * 10 + (c.toNat - 48)) 0

/-- `re.match(r"(\D+)(\d*)", match)` then `n = 1 if group(2) == "" else int(group(2))` -/
def splitCount (m : List Char) : String × Nat :=
  let name := m.takeWhile (fun c => !isAsciiDigit c)
  let ds := (m.dropWhile (fun c => !isAsciiDigit c)).takeWhile isAsciiDigit
  (String.ofList name, if ds.isEmpty then 1 else digitsVal ds)

/-- `count[name] += n` into a dict keeping first-seen order -/
def addCount (acc : List (String × Nat)) (k : String) (n : Nat) : List (String × Nat) :=
  if acc.any (·.1 == k) then acc.map (fun p => if p.1 == k then (p.1, p.2 + n) else p)
  else acc ++ [(k, n)]

/-- `order_molecular_formula(formula, order)`; `none` = ValueError (not a valid formula) -/
def orderFormula (formula : String) (ord : Order) : Option String :=
  let (pre, ms) := cutUpper formula.toList
  if !pre.isEmpty then none                              -- "".join(matches) != formula (24-25)
  else
    let counts := ms.foldl (fun acc m => let (k, n) := splitCount m; addCount acc k n) []
    some (fromSymbols (expand counts) ord)

/-- `get_molecular_formula(order, chgmult)` decoration (884-894); integer charge -/
def decorate (formula : String) (c m : Int) (chgmult : Bool) : String :=
  if !chgmult || (c == 0 && m == 1) then formula
  else
    let f1 := if m > 1 then toString m ++ "^" ++ formula else formula
    if c < 0 then f1 ++ String.ofList (List.replicate c.natAbs '-')
    else if c > 0 then f1 ++ String.ofList (List.replicate c.natAbs '+')
    else f1

end QcelVerif.Formula
