import QcelVerif.Model.Protocols
import QcelVerif.Model.ProtocolsElems
import QcelVerif.Model.ProtocolsAst
import QcelVerif.Gen.ProtocolsFlow
/-
SOURCE-DERIVED versions of the C20 protocol functions.  Core Lean only.

Each function here is: encode the model's own state (Model/Protocols.lean) as values of the evaluator of
Model/ProtocolsAst.lean, RUN THE VALIDATOR BODY AS TRANSLATED FROM THE SOURCE TEXT (Gen/ProtocolsFlow.lean, regenerated
on every run), decode the result.  Nothing of the control flow is written by hand here: what is by hand is
  * the encodings (a wavefunction dict is the dict over the keys restricted / basis / 22 arrays / 10 pointers, a pointer's
    value is the key of the array it names; files are a dict over file ids with "input" = 0; a trajectory is a list of
    opaque steps; a shell / centre is an opaque object with the attributes the code reads),
  * what pydantic does around a validator (which fields are in `values`, ValueError -> ValidationError at the field, other
    exceptions escape) — `validateBasisSrc`, `atomicResultSrc` have the same skeleton as the hand models and call the
    source-derived functions where those call the hand-written ones.
`Props/C20Flow.lean` proves every function here equal to its hand-written counterpart, for all inputs.
-/
namespace QcelVerif.Protocols.Src
open QcelVerif.Flow QcelVerif.Protocols

def wpName : WfnProto → String
  | .all => "all" | .orbitals_and_eigenvalues => "orbitals_and_eigenvalues"
  | .occupations_and_eigenvalues => "occupations_and_eigenvalues" | .return_results => "return_results" | .none => "none"

def nfName : NativePolicy → String
  | .all => "all" | .input => "input" | .none => "none"

def tpName : TrajPolicy → String
  | .all => "all" | .initial_and_final => "initial_and_final" | .final => "final" | .none => "none"

/-- the protocols object (`values["protocols"]`) -/
structure Protos where
  wp : WfnProto := .all
  so : Bool := true
  nf : NativePolicy := .all
  tp : TrajPolicy := .all

/-- opaque objects of the AtomicResult / OptimizationResult validators: a payload, or the protocols object -/
inductive Obj (π : Type) where
  | payload (p : π)
  | protocols (pr : Protos)

def protoAttr {κ π : Type} (pr : Protos) (a : String) : Option (Val κ (Obj π)) :=
  if a = "wavefunction" then some (.sc (.str (wpName pr.wp)))
  else if a = "stdout" then some (.sc (.bool pr.so))
  else if a = "native_files" then some (.sc (.str (nfName pr.nf)))
  else if a = "trajectory" then some (.sc (.str (tpName pr.tp)))
  else none

def objDom {κ π : Type} (keyOf : String → Option κ) (nameOf : κ → String) : Dom κ (Obj π) :=
  { keyOf := keyOf, nameOf := nameOf,
    attr := fun o a => match o with | .protocols pr => protoAttr pr a | .payload _ => none,
    len := fun _ => none,
    isinst := fun _ _ => false,
    ext := fun _ _ => .error .stuck }

/-- `values` holding the (valid) protocols object -/
def protoVals {κ π : Type} (pr : Protos) : String → Option (Val κ (Obj π)) :=
  fun k => if k = "protocols" then some (.sc (.atom (.protocols pr))) else none

/-! ## stdout -/

def noKey : String → Option Unit := fun _ => none
def unitName : Unit → String := fun _ => ""

def encOpt {κ π : Type} : Option π → Val κ (Obj π)
  | some s => .sc (.atom (.payload s))
  | none => .sc .none

def stdoutRaw {σ : Type} (keep : Bool) (v : Option σ) : ER Unit (Obj σ) :=
  run (objDom noKey unitName) (protoVals { so := keep }) Gen.stdoutProtocol.body (Env.empty.set "value" (encOpt v))

/-- `_stdout_protocol` as the source has it; `none` = evaluator stuck / unexpected exception -/
def stdoutSrc {σ : Type} (keep : Bool) (v : Option σ) : Option (Option σ) :=
  match stdoutRaw keep v with
  | .ok (.sc .none) => some none
  | .ok (.sc (.atom (.payload s))) => some (some s)
  | _ => none

/-! ## native files -/

def fileKey : String → Option Nat := fun s => if s = "input" then some 0 else none
def fileName : Nat → String := fun n => if n = 0 then "input" else s!"file{n}"

def filesGetSc {γ : Type} (f : Files γ) (k : Nat) : Option (Sc Nat (Obj γ)) :=
  (f.find? (fun e => e.1 == k)).map (fun e => match e.2 with | some c => .atom (.payload c) | none => .none)

def encFiles {γ : Type} (f : Files γ) : Val Nat (Obj γ) := .dict (f.map (·.1)) (filesGetSc f)

def decFiles {γ : Type} (keys : List Nat) (get : Nat → Option (Sc Nat (Obj γ))) : Files γ :=
  keys.filterMap (fun k => match get k with
    | some (.atom (.payload c)) => some (k, some c)
    | some _ => some (k, none)
    | none => none)

def nativeRaw {γ : Type} (p : NativePolicy) (f : Files γ) : ER Nat (Obj γ) :=
  run (objDom fileKey fileName) (protoVals { nf := p }) Gen.nativeFileProtocol.body (Env.empty.set "value" (encFiles f))

def nativeSrc {γ : Type} (p : NativePolicy) (f : Files γ) : Option (Files γ) :=
  match nativeRaw p f with
  | .ok (.dict keys get) => some (decFiles keys get)
  | _ => none

/-- the field as pydantic sees it (`always=True`, default `{}`) -/
def nativeFieldSrc {γ : Type} (p : NativePolicy) (f : Option (Files γ)) : Option (Files γ) :=
  nativeSrc p (f.getD [])

/-! ## trajectory -/

def encSteps {τ : Type} (v : List τ) : Val Unit (Obj τ) := .list (v.map (fun x => .atom (.payload x)))

def decSteps {τ : Type} : List (Sc Unit (Obj τ)) → Option (List τ)
  | [] => some []
  | .atom (.payload x) :: r => (decSteps r).map (x :: ·)
  | _ :: _ => none

def trajectoryRaw {τ : Type} (p : TrajPolicy) (v : List τ) : ER Unit (Obj τ) :=
  run (objDom noKey unitName) (protoVals { tp := p }) Gen.trajectoryProtocol.body (Env.empty.set "v" (encSteps v))

def trajectorySrc {τ : Type} (p : TrajPolicy) (v : List τ) : Option (List τ) :=
  match trajectoryRaw p v with
  | .ok (.list l) => decSteps l
  | _ => none

/-! ## wavefunction protocol -/

inductive WKey where
  | restricted | basis
  | arr (k : ArrKey)
  | ptr (k : PtrKey)
  deriving Repr, DecidableEq

def WKey.all : List WKey := [.restricted, .basis] ++ ArrKey.all.map .arr ++ PtrKey.all.map .ptr

def WKey.name : WKey → String
  | .restricted => "restricted" | .basis => "basis"
  | .arr k => k.name | .ptr k => k.name

def WKey.ofName (s : String) : Option WKey := WKey.all.find? (fun k => k.name == s)

inductive WPay (β : Type) where
  | shape (s : Shape)
  | basis (b : β)

abbrev WSc (β : Type) := Sc WKey (Obj (WPay β))

/-- the dict a wavefunction is: a pointer's value is the name (= key) of an array field -/
def wfnGet {β : Type} (w : Wfn β) : WKey → Option (WSc β)
  | .restricted => w.restricted.map .bool
  | .basis => w.basis.map (fun b => .atom (.payload (.basis b)))
  | .arr k => (w.arr k).map (fun s => .atom (.payload (.shape s)))
  | .ptr k => (w.ptr k).map (fun t => .key (.arr t))

def decWfn {β : Type} (get : WKey → Option (WSc β)) : Wfn β :=
  { restricted := match get .restricted with | some (.bool b) => some b | _ => none,
    basis := match get .basis with | some (.atom (.payload (.basis b))) => some b | _ => none,
    arr := fun k => match get (.arr k) with | some (.atom (.payload (.shape s))) => some s | _ => none,
    ptr := fun k => match get (.ptr k) with | some (.key (.arr t)) => some t | _ => none }

def wfnDom (β : Type) : Dom WKey (Obj (WPay β)) := objDom WKey.ofName WKey.name

def wfnRaw {β : Type} (p : WfnProto) (w : Wfn β) : ER WKey (Obj (WPay β)) :=
  run (wfnDom β) (protoVals { wp := p }) Gen.wavefunctionProtocol.body
    (Env.empty.set "value" (.dict WKey.all (wfnGet w)))

/-- `_wavefunction_protocol` on a supplied dict, as the source has it; ValueError is what pydantic turns into a
ValidationError at `wavefunction`; `none` = evaluator stuck / another exception -/
def wfnProtocolSrc {β : Type} (p : WfnProto) (w : Wfn β) : Option (Except Err (Option (Wfn β))) :=
  match wfnRaw p w with
  | .ok (.sc .none) => some (.ok none)
  | .ok (.dict _ get) => some (.ok (some (decWfn get)))
  | .error (.raise c) => if c = "ValueError" then some (.error (.validation ["wavefunction"])) else none
  | _ => none

/-! ## element-carrying wavefunction protocol (Model/ProtocolsElems.lean) -/

inductive WPayE (π β : Type) where
  | arr (a : Arr π)
  | basis (b : β)

abbrev WScE (π β : Type) := Sc WKey (Obj (WPayE π β))

def wfnGetE {π β : Type} (w : WfnE π β) : WKey → Option (WScE π β)
  | .restricted => w.restricted.map .bool
  | .basis => w.basis.map (fun b => .atom (.payload (.basis b)))
  | .arr k => (w.arr k).map (fun s => .atom (.payload (.arr s)))
  | .ptr k => (w.ptr k).map (fun t => .key (.arr t))

def decWfnE {π β : Type} (get : WKey → Option (WScE π β)) : WfnE π β :=
  { restricted := match get .restricted with | some (.bool b) => some b | _ => none,
    basis := match get .basis with | some (.atom (.payload (.basis b))) => some b | _ => none,
    arr := fun k => match get (.arr k) with | some (.atom (.payload (.arr s))) => some s | _ => none,
    ptr := fun k => match get (.ptr k) with | some (.key (.arr t)) => some t | _ => none }

def wfnDomE (π β : Type) : Dom WKey (Obj (WPayE π β)) := objDom WKey.ofName WKey.name

def wfnRawE {π β : Type} (p : WfnProto) (w : WfnE π β) : ER WKey (Obj (WPayE π β)) :=
  run (wfnDomE π β) (protoVals { wp := p }) Gen.wavefunctionProtocol.body
    (Env.empty.set "value" (.dict WKey.all (wfnGetE w)))

/-- `_wavefunction_protocol` as the source has it, on a dict whose arrays carry their row-major elements -/
def wfnProtocolESrc {π β : Type} (p : WfnProto) (w : WfnE π β) : Option (Except Err (Option (WfnE π β))) :=
  match wfnRawE p w with
  | .ok (.sc .none) => some (.ok none)
  | .ok (.dict _ get) => some (.ok (some (decWfnE get)))
  | .error (.raise c) => if c = "ValueError" then some (.error (.validation ["wavefunction"])) else none
  | _ => none


/-! ## BasisSet -/

inductive BObj where
  | shell (s : Shell)
  | center (c : Center)

def harmName : Harm → String
  | .spherical => "spherical" | .cartesian => "cartesian"

abbrev BVal := Val Nat BObj

def basisDom (ext : String → List BVal → ER Nat BObj) : Dom Nat BObj :=
  { keyOf := fun _ => none, nameOf := fun n => s!"c{n}",
    attr := fun o a => match o with
      | .shell s =>
        if a = "harmonic_type" then some (.sc (.str (harmName s.harm)))
        else if a = "angular_momentum" then some (.list (s.am.map (fun (l : Nat) => .int (l : Int))))
        else none
      | .center c => if a = "electron_shells" then some (.list (c.shells.map (fun s => .atom (.shell s)))) else none,
    len := fun _ => none, isinst := fun _ _ => false, ext := ext }

def noExt : String → List BVal → ER Nat BObj := fun _ _ => .error .stuck
def noVals : String → Option BVal := fun _ => none

def nfunctionsRaw (s : Shell) : ER Nat BObj :=
  run (basisDom noExt) noVals Gen.shellNfunctions.body (Env.empty.set "self" (.sc (.atom (.shell s))))

/-- `ElectronShell.nfunctions` as the source has it -/
def nfunctionsSrc (s : Shell) : Option Nat :=
  match nfunctionsRaw s with
  | .ok (.sc (.int i)) => if i ≥ 0 then some i.toNat else none
  | _ => none

def extNf : String → List BVal → ER Nat BObj := fun f args =>
  if f = "nfunctions" then
    (match args with
     | [.sc (.atom (.shell s))] => nfunctionsRaw s
     | _ => .error .stuck)
  else .error .stuck

def encCenters (cs : List Center) : BVal :=
  .dict (cs.map (·.id)) (fun i => (findCenter cs i).map (fun c => .atom (.center c)))

def encAtomMap (am : List Nat) : BVal := .list (am.map Sc.key)

def calcNbfRaw (am cd : BVal) : ER Nat BObj :=
  run (basisDom extNf) noVals Gen.calculateNbf.body ((Env.empty.set "atom_map" am).set "center_data" cd)

/-- `BasisSet._calculate_nbf` as the source has it -/
def calcNbfSrc (cs : List Center) (am : List Nat) : Option Nat :=
  match calcNbfRaw (encAtomMap am) (encCenters cs) with
  | .ok (.sc (.int i)) => if i ≥ 0 then some i.toNat else none
  | _ => none

def extCalc : String → List BVal → ER Nat BObj := fun f args =>
  if f = "_calculate_nbf" then
    (match args with
     | [am, cd] => calcNbfRaw am cd
     | _ => .error .stuck)
  else .error .stuck

/-- the `values` dict of BasisSet at the validators of `atom_map` / `nbf`: failed fields are absent -/
def basisVals (cdOk amOk : Bool) (b : BasisIn) : String → Option BVal := fun k =>
  if k = "center_data" then (if cdOk then some (encCenters b.centers) else none)
  else if k = "atom_map" then (if amOk then some (encAtomMap b.atomMap) else none)
  else none

def checkAtomMapRaw (cdOk : Bool) (b : BasisIn) : ER Nat BObj :=
  run (basisDom noExt) (basisVals cdOk false b) Gen.checkAtomMap.body (Env.empty.set "v" (encAtomMap b.atomMap))

def encNbf : Option Nat → BVal
  | some n => .sc (.int n)
  | none => .sc .none

def checkNbfRaw (cdOk amOk : Bool) (b : BasisIn) : ER Nat BObj :=
  run (basisDom extCalc) (basisVals cdOk amOk b) Gen.checkNbf.body (Env.empty.set "v" (encNbf b.nbf))

/-- `BasisSet(**b)` with the decisions of `_check_atom_map`, `_check_nbf`, `_calculate_nbf` and `nfunctions` taken by the
source-derived bodies; the shell validators and pydantic's bookkeeping are as in `validateBasis`.  `none` = stuck. -/
def validateBasisSrc (b : BasisIn) : Option (Except BasisErr BasisIn) :=
  let locs := flatten (b.centers.map centerLocs)
  let cdOk := locs.isEmpty
  let am : Option (List String) :=
    match checkAtomMapRaw cdOk b with
    | .ok _ => some []
    | .error (.raise c) => if c = "ValueError" then some ["atom_map"] else none
    | .error .stuck => none
  match am with
  | none => none
  | some amLocs =>
    match checkNbfRaw cdOk amLocs.isEmpty b with
    | .error (.raise c) => if c = "ValidationError" then some (.error .nbfMismatch) else none
    | .error .stuck => none
    | .ok v =>
      let nbf' : Option (Option Nat) :=
        match v with
        | .sc .none => some none
        | .sc (.int i) => if i ≥ 0 then some (some i.toNat) else none
        | _ => none
      match nbf' with
      | none => none
      | some n =>
        match locs ++ amLocs with
        | [] => some (.ok { b with nbf := n })
        | l => some (.error (.fields l))

/-! ## AtomicResult with the source-derived protocols -/

def wfnFieldSrc (p : WfnProto) (w : Option (Wfn BasisIn)) : Option (Except Err (Option (Wfn BasisIn))) :=
  match w with
  | none => some (.ok none)
  | some w =>
    match wfnProtocolSrc p w with
    | none => none
    | some (.error e) => some (.error e)
    | some (.ok none) => some (.ok none)
    | some (.ok (some w1)) =>
      match validateWfn w1 with
      | .ok w2 => some (.ok (some w2))
      | .error (.validation l) => some (.error (.validation (l.map (fun s => "wavefunction." ++ s))))
      | .error e => some (.error e)

/-- `atomicResult` with `_wavefunction_protocol`, `_stdout_protocol`, `_native_file_protocol` taken from the source -/
def atomicResultSrc {γ σ : Type} (i : ARIn γ σ) : Option (Except Err (AROut γ σ)) :=
  let (pv, plocs) : Option PropsIn × List String :=
    match validateProps i.props with
    | .ok p => (some p, [])
    | .error l => (none, l.map (fun k => "properties." ++ k.name))
  match wfnFieldSrc i.wp i.wfn, stdoutSrc i.so i.stdout, nativeFieldSrc i.nf i.native with
  | some wf, some so, some nf =>
    some (match wf with
      | .error (.validation wl) =>
        .error (.validation (plocs ++ wl ++ (if (validateRR i.driver i.rr).isNone then ["return_result"] else [])))
      | .error e => .error e
      | .ok w =>
        match pv, validateRR i.driver i.rr with
        | some p, some r => .ok { props := p, wfn := w, rr := r, stdout := so, native := nf }
        | _, r => .error (.validation (plocs ++ (if r.isNone then ["return_result"] else []))))
  | _, _, _ => none

end QcelVerif.Protocols.Src
