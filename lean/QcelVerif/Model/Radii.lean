import QcelVerif.Model.PeriodicTable
import QcelVerif.Model.RadiiF64
/-
Model of the radii lookups (C17), parameterised by the periodic table (`PT.Tables`, C01's model),
the radius table and the unit-conversion factor, so that the general theorems hold for any tables.
Core Lean only.

  * `Datum.__init__` / `must_be_numerical` (datum.py:51-77)                  -> `Datum`, `validateData`
  * `Datum.to_units` (datum.py:96-105)                                       -> `Datum.toUnits`
  * table load (covalent_radii.py:42-58, vanderwaals_radii.py:41-57)         -> `loadRows`
  * generic-element aliases, covalent only (covalent_radii.py:60-71)         -> `loadCov`
  * `get` (covalent_radii.py:123-141, vanderwaals_radii.py:107-125)          -> `get`

`constants.conversion_factor(datum.units, units)` is pint's (C03's territory): it enters as the
parameter `conv : source-units ↦ factor` for the requested target unit (`none` = pint raised).
Floats are exact rationals of doubles; `*` and `float(Decimal)` are `rnd64` of the exact value.
-/
namespace QcelVerif.Radii
open QcelVerif QcelVerif.PStr QcelVerif.PT

/-- `Datum.data` payloads in the property's scope -/
inductive Payload where
  /-- `decimal.Decimal`: sign, coefficient, exponent (`as_tuple`), digits preserved -/
  | dec (neg : Bool) (coeff : Nat) (exp : Int)
  /-- Python float (exact value of the double) -/
  | flt (x : Rat)
  /-- 1-d float64 numpy array -/
  | arr (xs : List Rat)
  deriving DecidableEq, Repr

/-- the fields of `Datum` the radii code sets; `none` = keyword not passed (pydantic default) -/
structure Datum where
  label : Bytes
  units : Bytes
  data : Payload
  comment : Option Bytes
  doi : Option Bytes
  deriving DecidableEq, Repr

/-! ### `must_be_numerical` (datum.py:62-77) -/

/-- what the validator can see of a candidate `data` value -/
inductive DataKind where
  | float | int | bool | complex | ndarray   -- `1.0 * v` works
  | decimal                                   -- `1.0 * v` TypeError, `Decimal("1.0") * v` works
  | str | list | none                         -- both TypeError
  deriving DecidableEq, Repr

/-- `ok numeric'` (the value of the `numeric` field afterwards) or `none` = ValueError → ValidationError -/
def validateData (k : DataKind) (numeric : Bool) : Option Bool :=
  match k with
  | .float | .int | .bool | .complex | .ndarray => some true
  | .decimal => some true
  | .str | .list | .none => if numeric then Option.none else some false

/-! ### `to_units` (datum.py:96-105) -/

inductive Err where
  | NotAnElement
  | DataUnavailable
  /-- `conversion_factor` raised (unknown / incompatible unit): outside the model, passed through -/
  | Conv
  deriving DecidableEq, Repr

/-- what `get` can return -/
inductive Out where
  /-- a float (radius in the requested unit, or the caller's `missing`) -/
  | value (x : Rat)
  /-- an array result of `to_units` -/
  | values (xs : List Rat)
  /-- `return_tuple=True` -/
  | datum (d : Datum)
  deriving DecidableEq, Repr

/-- `factor * float(self.data)` for Decimal, `factor * self.data` otherwise -/
def Payload.scale (f : Rat) : Payload → Out
  | .dec n c e => .value (fmul f (ofDec n c e))
  | .flt x => .value (fmul f x)
  | .arr xs => .values (xs.map (fmul f))

def Datum.toUnits (conv : Bytes → Option Rat) (d : Datum) : Except Err Out :=
  match conv d.units with
  | none => .error .Conv
  | some f => .ok (d.data.scale f)

/-! ### table load -/

/-- `Decimal(text)` for the plain notations `ddd`, `ddd.ddd`, `ddd.`, `.ddd`: (coefficient, scale).
Signs, exponents, underscores, blanks are outside the model (`none`). -/
def parseDec (s : Bytes) : Option (Nat × Nat) :=
  let ip := s.takeWhile isDigit
  match s.dropWhile isDigit with
  | [] => if ip.isEmpty then none else some (digitsVal ip, 0)
  | c :: fp =>
    if c == 46 && fp.all isDigit && !(ip.isEmpty && fp.isEmpty) then some (digitsVal (ip ++ fp), fp.length)
    else none

/-- a radius table as the sequence of `self.cr[key] = Datum(...)` assignments -/
abbrev Table := List (Bytes × Datum)

/-- `key in self.cr.keys()` -/
def hasLabel (t : Table) (s : Bytes) : Bool := t.any (fun p => p.1 == s)

/-- `self.cr[key]` for a key given as text: the last assignment wins -/
def lookupB (t : Table) (s : Bytes) : Option Datum :=
  t.foldl (fun acc p => if p.1 == s then some p.2 else acc) none

/-- `self.cr[identifier]` for an identifier given packed (as C01's model returns symbols) -/
def lookupK (t : Table) (k : Nat) : Option Datum :=
  t.foldl (fun acc p => if pack p.1 == k then some p.2 else acc) none

/-- the load loop: `self.cr[r[0]] = Datum(r[0], native_units, Decimal(r[1]), comment=r[2]?, doi=doi)` -/
def loadRows (units doi : Bytes) (rows : List (Bytes × Bytes × Option Bytes)) : Option Table :=
  rows.mapM fun r =>
    (parseDec r.2.1).map fun cs =>
      (r.1, { label := r.1, units := units, data := .dec false cs.1 (-(cs.2 : Int)), comment := r.2.2, doi := some doi })

def bAngstrom : Bytes := [97, 110, 103, 115, 116, 114, 111, 109]
/-- "Largest (sp3) chosen for generic atom" -/
def cLargest : Bytes := [76, 97, 114, 103, 101, 115, 116, 32, 40, 115, 112, 51, 41, 32, 99, 104, 111, 115, 101, 110, 32, 102, 111, 114, 32, 103, 101, 110, 101, 114, 105, 99, 32, 97, 116, 111, 109]
/-- "Larger (high-spin) chosen for generic atom" -/
def cLarger : Bytes := [76, 97, 114, 103, 101, 114, 32, 40, 104, 105, 103, 104, 45, 115, 112, 105, 110, 41, 32, 99, 104, 111, 115, 101, 110, 32, 102, 111, 114, 32, 103, 101, 110, 101, 114, 105, 99, 32, 97, 116, 111, 109]

/-- the `aliases` list (covalent_radii.py:61-66): (ident, source label, comment); units are the
literal "angstrom" -/
def covAliasSpec : List (Bytes × Bytes × Bytes) :=
  [ ([67], [67, 95, 115, 112, 51], cLargest),                                            -- C  <- C_sp3
    ([77, 110], [77, 110, 95, 104, 105, 103, 104, 115, 112, 105, 110], cLarger),          -- Mn <- Mn_highspin
    ([70, 101], [70, 101, 95, 104, 105, 103, 104, 115, 112, 105, 110], cLarger),          -- Fe <- Fe_highspin
    ([67, 111], [67, 111, 95, 104, 105, 103, 104, 115, 112, 105, 110], cLarger) ]         -- Co <- Co_highspin

/-- covalent set: rows, then `self.cr[ident.capitalize()] = Datum(ident, "angstrom", self.cr[src].data, comment=…)`.
The right-hand sides are evaluated before any alias is stored; a missing source is a KeyError at import (`none`). -/
def loadCov (units doi : Bytes) (rows : List (Bytes × Bytes × Option Bytes)) : Option Table := do
  let base ← loadRows units doi rows
  let al ← covAliasSpec.mapM fun a =>
    (lookupB base a.2.1).map fun src =>
      (capitalize a.1, ({ label := a.1, units := bAngstrom, data := src.data, comment := some a.2.2, doi := none } : Datum))
  pure (base ++ al)

/-- van der Waals set: rows only -/
def loadVdw (units doi : Bytes) (rows : List (Bytes × Bytes × Option Bytes)) : Option Table :=
  loadRows units doi rows

/-! ### `get` -/

/-- lines 123-127: an exact label is its own identifier, anything else goes through `periodictable.to_E` -/
def identify (T : Tables) (t : Table) (a : PyVal) : Option Nat :=
  match a with
  | .str s => if hasLabel t s then some (pack s) else T.toE a false
  | .int _ => T.toE a false      -- an int never equals a str key

/-- lines 129-141, once the identifier is known -/
def getByKey (t : Table) (conv : Bytes → Option Rat) (k : Nat) (returnTuple : Bool) (missing : Option Rat) :
    Except Err Out :=
  match lookupK t k with
  | none =>
    match missing with
    | some m => if !returnTuple then .ok (.value m) else .error .DataUnavailable
    | none => .error .DataUnavailable
  | some d => if returnTuple then .ok (.datum d) else d.toUnits conv

/-- `CovalentRadii.get` / `VanderWaalsRadii.get` -/
def get (T : Tables) (t : Table) (conv : Bytes → Option Rat) (a : PyVal) (returnTuple : Bool)
    (missing : Option Rat) : Except Err Out :=
  match identify T t a with
  | none => .error .NotAnElement
  | some k => getByKey t conv k returnTuple missing

/-- "bohr" -/
def bBohr : Bytes := [98, 111, 104, 114]

/-- `get` with its `units` keyword (signature at covalent_radii.py:76-78, vanderwaals_radii.py:62-64):
omitted means `"bohr"`; `convF src dst` is `constants.conversion_factor(src, dst)` as a parameter. -/
def getU (T : Tables) (t : Table) (convF : Bytes → Bytes → Option Rat) (a : PyVal) (returnTuple : Bool)
    (units : Option Bytes) (missing : Option Rat) : Except Err Out :=
  get T t (fun src => convF src (units.getD bBohr)) a returnTuple missing

end QcelVerif.Radii
