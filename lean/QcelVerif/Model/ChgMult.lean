/-
Model of `qcelemental/molparse/chgmult.py::validate_and_fill_chgmult` (C05).

Scope: integer electron counts, integer charges and multiplicities (the property's scope).
Core Lean only (no Mathlib) so that the driver starts fast.

The model follows the source stage by stage:
  * the early positivity screen (chgmult.py:309-314),
  * ghost detection and the `zero_ghost_fragments` rewriting (329-342),
  * candidate lists S1–S7 in source order (387-456),
  * `unique_everseen` de-duplication, the candidate product in `itertools.product` order
    (total charge, fragment charges, total multiplicity, fragment multiplicities; rightmost
    varies fastest) and first match (466-504),
  * rules R1–R9 as one decidable predicate `rulesOk`.
-/
namespace QcelVerif.ChgMult

/-- Input as the Python function sees it (after `np.split(zeff, fragment_separators)`). -/
structure Inp where
  frags : List (List Int)        -- `felez`: zeff per fragment
  c     : Option Int             -- molecular_charge
  fc    : List (Option Int)      -- fragment_charges
  m     : Option Int             -- molecular_multiplicity
  fm    : List (Option Int)      -- fragment_multiplicities
  zgf   : Bool                   -- zero_ghost_fragments
  deriving Repr, DecidableEq

structure Out where
  c  : Int
  fc : List Int
  m  : Int
  fm : List Int
  deriving Repr, DecidableEq

inductive Err where
  | validation      -- qcelemental.ValidationError
  | malformed       -- list lengths disagree with the fragment count (outside the scope; Python raises IndexError)
  deriving Repr, DecidableEq

instance : DecidableEq (Except Err Out) := fun a b =>
  match a, b with
  | .ok x, .ok y => if h : x = y then isTrue (h ▸ rfl) else isFalse (fun e => h (Except.ok.inj e))
  | .error x, .error y => if h : x = y then isTrue (h ▸ rfl) else isFalse (fun e => h (Except.error.inj e))
  | .ok _, .error _ => isFalse (fun e => by cases e)
  | .error _, .ok _ => isFalse (fun e => by cases e)

/-- `all(f == 0 for f in felez[ifr])` -/
def isGhost (f : List Int) : Bool := f.all (· == 0)

def isum (l : List Int) : Int := l.foldr (· + ·) 0

/-- `_high_spin_sum` -/
def highSpin (l : List Int) : Int := 1 + isum (l.map (· - 1))

/-- `sum(filter(None, xs))` : drops `None` (and 0, which does not change the sum). -/
def sumKnown (l : List (Option Int)) : Int := isum (l.map (fun o => o.getD 0))

/-- `_apply_default` -/
def applyDefault (l : List (Option Int)) (d : Int) : List Int := l.map (fun o => o.getD d)

/-- `list.remove(None)`: removes the first `None`. -/
def removeFirstNone : List (Option Int) → List (Option Int)
  | [] => []
  | none :: t => t
  | some x :: t => some x :: removeFirstNone t

/-- `range(lo, hi + 1)` over Python ints. -/
def irange (lo hi : Int) : List Int :=
  (List.range (hi + 1 - lo).toNat).map (fun (k : Nat) => lo + (k : Int))

/-- `unique_everseen` -/
def dedup : List Int → List Int
  | [] => []
  | x :: t => x :: (dedup t).filter (· != x)

/-- `itertools.product(*ls)` : rightmost list varies fastest. -/
def prod : List (List Int) → List (List Int)
  | [] => [[]]
  | l :: ls => l.flatMap (fun x => (prod ls).map (fun t => x :: t))

/-- The effective specification after the `zero_ghost_fragments` rewriting (336-342). -/
def effective (i : Inp) : Inp :=
  if i.zgf && !(i.frags.all (fun f => !isGhost f)) then
    { i with
      c := none
      fc := List.zipWith (fun f x => if isGhost f then some 0 else x) i.frags i.fc
      m := none
      fm := List.zipWith (fun f x => if isGhost f then some 1 else x) i.frags i.fm }
  else i

/-- The early screen (309-314): a supplied multiplicity that is truthy and `< 1`. -/
def badMult (o : Option Int) : Bool :=
  match o with
  | some v => v != 0 && v < 1
  | none => false

def precheckFails (i : Inp) : Bool := badMult i.m || i.fm.any badMult

/-- `_parity_ok` with Python's floor-mod (`Int.emod` agrees with it for modulus 2). -/
def parityOk (z c m : Int) : Bool := (m % 2) != ((z - c) % 2)

def sufficient (z c m : Int) : Bool := m - 1 ≤ z - c

/-- supplied value (if any) is kept -/
def keeps (spec : Option Int) (v : Int) : Bool :=
  match spec with
  | some s => v == s
  | none => true

def keepsAll : List (Option Int) → List Int → Bool
  | [], _ => true
  | s :: ss, v :: vs => keeps s v && keepsAll ss vs
  | _ :: _, [] => false   -- Python: IndexError; unreachable for well-formed input

def fragRules : List (List Int) → List Int → List Int → Bool
  | [], _, _ => true
  | f :: fs, c :: cs, m :: ms =>
      sufficient (isum f) c m && parityOk (isum f) c m &&
      (!(isGhost f) || (c == 0 && m == 1)) && fragRules fs cs ms
  | _ :: _, _, _ => false

/-- `molecular_multiplicity is None or any(f is None for f in fragment_multiplicities)` -/
def highSpinRequired (e : Inp) : Bool := e.m.isNone || e.fm.any (·.isNone)

/-- Rules R1–R9 on a candidate `(c, fc, m, fm)`, for the effective specification `e`. -/
def rulesOk (e : Inp) (o : Out) : Bool :=
  o.fc.length == e.frags.length && o.fm.length == e.frags.length &&      -- R1 (all exist)
  (o.c == isum o.fc) &&                                                   -- R2
  (1 ≤ o.m && o.fm.all (fun x => decide (1 ≤ x))) &&                      -- R3
  sufficient (isum (e.frags.map isum)) o.c o.m &&                         -- R4 total
  parityOk (isum (e.frags.map isum)) o.c o.m &&                           -- R5 total
  fragRules e.frags o.fc o.fm &&                                          -- R4-i, R5-i, R9-i
  keeps e.c o.c && keepsAll e.fc o.fc &&                                  -- R6
  keeps e.m o.m && keepsAll e.fm o.fm &&                                  -- R7
  (!(highSpinRequired e) || o.m == highSpin o.fm)                         -- R8

/-- candidate total charges: S1 then S2 -/
def candC (e : Inp) : List Int :=
  (match e.c with | some c => [c] | none => []) ++ [sumKnown e.fc]

/-- candidate fragment charges: S1 or (S3 then S4) -/
def candFc (e : Inp) : List (List Int) :=
  let missing := (e.c.getD 0) - sumKnown e.fc
  e.fc.map (fun o => match o with | some x => [x] | none => [missing, 0])

/-- candidate total multiplicities: S1 or S5 -/
def candM (e : Inp) : List Int :=
  match e.m with
  | some m => [m]
  | none => irange (highSpin (applyDefault e.fm 1)) (highSpin (applyDefault e.fm 2))

/-- (missing_mult_lo, missing_mult_hi) of S6 -/
def missingMult (e : Inp) : Int × Int :=
  match e.m with
  | some m =>
      if e.fm.any (·.isNone) then
        let rest := removeFirstNone e.fm
        (m - highSpin (applyDefault rest 2) + 1, m - highSpin (applyDefault rest 1) + 1)
      else (0, 0)
  | none => (0, 0)

/-- candidate fragment multiplicities: S1 or (S6 reversed, then S7 = 1, 2) -/
def candFm (e : Inp) : List (List Int) :=
  let (lo, hi) := missingMult e
  e.fm.map (fun o => match o with
    | some x => [x]
    | none => (irange (max lo 1) hi).reverse ++ [1, 2])

/-- all candidates in `itertools.product` order -/
def candidates (e : Inp) : List Out :=
  (dedup (candC e)).flatMap fun c =>
  (prod ((candFc e).map dedup)).flatMap fun fc =>
  (dedup (candM e)).flatMap fun m =>
  (prod ((candFm e).map dedup)).map fun fm => { c := c, fc := fc, m := m, fm := fm }

def wellFormed (i : Inp) : Bool :=
  i.fc.length == i.frags.length && i.fm.length == i.frags.length

/-- `validate_and_fill_chgmult` -/
def vfc (i : Inp) : Except Err Out :=
  if !wellFormed i then .error .malformed
  else if precheckFails i then .error .validation
  else
    match (candidates (effective i)).find? (rulesOk (effective i)) with
    | some o => .ok o
    | none => .error .validation

/-- feed a result back as a full specification -/
def specifiedBy (i : Inp) (o : Out) : Inp :=
  { i with c := some o.c, fc := o.fc.map some, m := some o.m, fm := o.fm.map some }

end QcelVerif.ChgMult
