import QcelVerif.Model.ResultValues
/-!
C09 — reading keyword dictionaries (as `harness/c09.py: enc_val` writes them) into the inputs of
`Model/ResultValues.lean`.  Driver-side glue (core Lean only): strict — an unknown keyword of a closed model, a value of
the wrong kind or a malformed array makes the decoder return `none` (the driver answers `bad-op`), never a default.

Conventions of the harness (`norm_kwargs`): array keywords arrive as `Val.arr shape ravel` (`np.asarray(v, dtype=float)`),
numeric strings of basis exponents / coefficients as the float `float(s)`, the molecule of AtomicInput / AtomicResult as
the Molecule OBJECT (`Val.obj "Molecule"`, unset attributes marked), every other nested model as its keyword dictionary.
A keyword given as `None` is read as absent where the field is Optional (both are dropped from the emitted JSON).
-/
namespace QcelVerif.ResultKwargs
open QcelVerif.Schema QcelVerif.MolSchema QcelVerif.MolDict QcelVerif.ResultValues
open QcelVerif.Protocols (Harm WfnProto NativePolicy Driver PropArr ArrKey PtrKey)

abbrev Kw := List (String × Val)

def asStr : Val → Option String
  | .str s => some s
  | _ => none
def asInt : Val → Option Int
  | .int i => some i
  | _ => none
def asBool : Val → Option Bool
  | .bool b => some b
  | _ => none
def asNum : Val → Option Num
  | .int i => some (.ofInt i)
  | .num q => some (.ofRat q)
  | _ => none
def asRat : Val → Option Rat
  | .int i => some (i : Rat)
  | .num q => some q
  | _ => none
def asNat : Val → Option Nat
  | .int i => if 0 ≤ i then some i.toNat else none
  | _ => none
def asDict : Val → Option Kw
  | .dict kvs => some kvs
  | _ => none
def asList : Val → Option (List Val)
  | .list xs => some xs
  | _ => none
def asArr : Val → Option ArrIn
  | .arr shape flat => (flat.mapM asRat).map (fun f => { shape := shape, flat := f })
  | _ => none

/-- optional keyword: absent or None -> `none` -/
def opt {α : Type} (kw : Kw) (k : String) (f : Val → Option α) : Option (Option α) :=
  match assoc k kw with
  | none => some none
  | some .null => some none
  | some v => (f v).map some

def req {α : Type} (kw : Kw) (k : String) (f : Val → Option α) : Option α :=
  (assoc k kw).bind f

def rest (kw : Kw) (known : List String) : Kw := kw.filter (fun kv => !known.contains kv.1)

def closed (kw : Kw) (known : List String) : Option Unit :=
  if (rest kw known).isEmpty then some () else none

def provOf (v : Val) : Option ProvIn := do
  let kw ← asDict v
  let creator ← req kw "creator" asStr
  let version ← opt kw "version" asStr
  let routine ← opt kw "routine" asStr
  -- a declared keyword given as None would be an attribute None (dropped); keep only true extras
  pure { creator := creator, version := version, routine := routine, extras := rest kw ["creator", "version", "routine"] }

def harmOf : Val → Option Harm
  | .str "spherical" => some .spherical
  | .str "cartesian" => some .cartesian
  | _ => none

def ratsOf (v : Val) : Option (List Rat) := (asList v).bind (·.mapM asRat)
def rowsOf (v : Val) : Option (List (List Rat)) := (asList v).bind (·.mapM ratsOf)

def shellOf (v : Val) : Option ShellIn := do
  let kw ← asDict v
  closed kw ["angular_momentum", "harmonic_type", "exponents", "coefficients"]
  let am ← req kw "angular_momentum" (fun x => (asList x).bind (·.mapM asNat))
  let harm ← req kw "harmonic_type" harmOf
  let exps ← req kw "exponents" ratsOf
  let coefs ← req kw "coefficients" rowsOf
  pure { am := am, harm := harm, exps := exps, coefs := coefs }

def ecpOf (v : Val) : Option EcpIn := do
  let kw ← asDict v
  closed kw ["ecp_type", "angular_momentum", "r_exponents", "gaussian_exponents", "coefficients"]
  let t ← req kw "ecp_type" (fun x => match x with | .str "scalar" => some false | .str "spinorbit" => some true | _ => none)
  let am ← req kw "angular_momentum" (fun x => (asList x).bind (·.mapM asNat))
  let re ← req kw "r_exponents" (fun x => (asList x).bind (·.mapM asInt))
  let ge ← req kw "gaussian_exponents" ratsOf
  let coefs ← req kw "coefficients" rowsOf
  pure { spinorbit := t, am := am, rexp := re, gexp := ge, coefs := coefs }

def centerOf (v : Val) : Option CenterIn := do
  let kw ← asDict v
  closed kw ["electron_shells", "ecp_electrons", "ecp_potentials"]
  let shells ← req kw "electron_shells" (fun x => (asList x).bind (·.mapM shellOf))
  let ee ← opt kw "ecp_electrons" asInt
  let ep ← opt kw "ecp_potentials" (fun x => (asList x).bind (·.mapM ecpOf))
  pure { shells := shells, ecpElectrons := ee, ecpPotentials := ep }

def basisOf (v : Val) : Option BasisIn := do
  let kw ← asDict v
  closed kw ["schema_name", "schema_version", "name", "description", "center_data", "atom_map", "nbf"]
  let sn ← opt kw "schema_name" asStr
  let sv ← opt kw "schema_version" asInt
  let name ← req kw "name" asStr
  let desc ← opt kw "description" asStr
  let cd ← req kw "center_data" asDict
  let centers ← cd.mapM (fun kv => (centerOf kv.2).map (fun c => (kv.1, c)))
  let am ← req kw "atom_map" (fun x => (asList x).bind (·.mapM asStr))
  let nbf ← opt kw "nbf" asInt
  pure { schemaName := sn, schemaVersion := sv, name := name, description := desc, centers := centers, atomMap := am, nbf := nbf }

def basisArgOf : Val → Option BasisArg
  | .str s => some (.name s)
  | v => (basisOf v).map .set

def modelOf (v : Val) : Option ModelIn := do
  let kw ← asDict v
  let method ← req kw "method" asStr
  let basis ← opt kw "basis" basisArgOf
  pure { method := method, basis := basis, extras := rest kw ["method", "basis"] }

def wfnProtoOf : Val → Option WfnProto
  | .str "all" => some .all
  | .str "orbitals_and_eigenvalues" => some .orbitals_and_eigenvalues
  | .str "occupations_and_eigenvalues" => some .occupations_and_eigenvalues
  | .str "return_results" => some .return_results
  | .str "none" => some .none
  | _ => none

def nativeOf : Val → Option NativePolicy
  | .str "all" => some .all
  | .str "input" => some .input
  | .str "none" => some .none
  | _ => none

def driverOf : Val → Option Driver
  | .str "energy" => some .energy
  | .str "gradient" => some .gradient
  | .str "hessian" => some .hessian
  | .str "properties" => some .properties
  | _ => none

def ecOf (v : Val) : Option ECIn := do
  let kw ← asDict v
  closed kw ["default_policy", "policies"]
  let dp ← opt kw "default_policy" asBool
  let pol ← opt kw "policies" (fun x => (asDict x).bind (·.mapM (fun kv => (asBool kv.2).map (fun b => (kv.1, b)))))
  pure { defaultPolicy := dp, policies := pol }

def protoOf (v : Val) : Option ProtoIn := do
  let kw ← asDict v
  closed kw ["wavefunction", "stdout", "error_correction", "native_files"]
  let w ← opt kw "wavefunction" wfnProtoOf
  let so ← opt kw "stdout" asBool
  let ec ← opt kw "error_correction" ecOf
  let nf ← opt kw "native_files" nativeOf
  pure { wavefunction := w, stdout := so, errorCorrection := ec, nativeFiles := nf }

/-! the Molecule object (in-memory: `O…` with unset attributes marked) -/

def setEntries (fs : Kw) : Kw := fs.filter (fun kv => match kv.2 with | .unset _ => false | _ => true)

def strsOfArr : Val → Option (List String)
  | .arr [_] flat => flat.mapM asStr
  | _ => none
def numsOfArr : Val → Option (List Rat)
  | .arr _ flat => flat.mapM asRat
  | _ => none
def intsOfArr : Val → Option (List Int)
  | .arr [_] flat => flat.mapM asInt
  | _ => none
def boolsOfArr : Val → Option (List Bool)
  | .arr [_] flat => flat.mapM asBool
  | _ => none
def bondOf : Val → Option (Nat × Nat × Rat)
  | .list [a, b, c] => do pure ((← asNat a), (← asNat b), (← asRat c))
  | _ => none

def identOf : Val → Option (List (String × String))
  | .obj "Identifiers" fs => (setEntries fs).mapM (fun kv => (asStr kv.2).map (fun s => (kv.1, s)))
  | _ => none

def provObjOf : Val → Option ProvIn
  | .obj "Provenance" fs => provOf (.dict (setEntries fs))
  | _ => none

def molObjOf : Val → Option MolObj
  | .obj "Molecule" fs0 => do
    let fs := (setEntries fs0).filter (fun kv => match kv.2 with | .null => false | _ => true)
    closed fs ["schema_name", "schema_version", "validated", "symbols", "geometry", "name", "identifiers", "comment",
      "molecular_charge", "molecular_multiplicity", "masses_", "real_", "atom_labels_", "atomic_numbers_", "mass_numbers_",
      "connectivity_", "fragments_", "fragment_charges_", "fragment_multiplicities_", "fix_com", "fix_orientation",
      "fix_symmetry", "provenance", "id", "extras"]
    let d : MolDict Rat := {
      symbols := ← opt fs "symbols" strsOfArr, geometry := ← opt fs "geometry" numsOfArr,
      masses := ← opt fs "masses_" numsOfArr, atomicNumbers := ← opt fs "atomic_numbers_" intsOfArr,
      massNumbers := ← opt fs "mass_numbers_" intsOfArr, atomLabels := ← opt fs "atom_labels_" strsOfArr,
      real := ← opt fs "real_" boolsOfArr, name := ← opt fs "name" asStr, comment := ← opt fs "comment" asStr,
      charge := ← opt fs "molecular_charge" asRat, mult := ← opt fs "molecular_multiplicity" asInt,
      fragments := ← opt fs "fragments_" (fun x => (asList x).bind (·.mapM intsOfArr)),
      fragCharges := ← opt fs "fragment_charges_" ratsOf,
      fragMults := ← opt fs "fragment_multiplicities_" (fun x => (asList x).bind (·.mapM asInt)),
      fixCom := ← opt fs "fix_com" asBool, fixOri := ← opt fs "fix_orientation" asBool,
      fixSym := ← opt fs "fix_symmetry" asStr,
      connectivity := ← opt fs "connectivity_" (fun x => (asList x).bind (·.mapM bondOf)),
      validated := ← opt fs "validated" asBool }
    pure { nm := ← opt fs "schema_name" asStr, ver := ← opt fs "schema_version" asInt, d := d,
           identifiers := ← opt fs "identifiers" identOf, provenance := ← opt fs "provenance" provObjOf,
           id := assoc "id" fs, extras := ← opt fs "extras" asDict }
  | _ => none

def ainKeys : List String :=
  ["id", "schema_name", "schema_version", "molecule", "driver", "model", "keywords", "protocols", "extras", "provenance"]

def ainOfKw (kw : Kw) : Option AInIn := do
  pure { id := ← opt kw "id" asStr, schemaName := ← opt kw "schema_name" asStr, schemaVersion := ← opt kw "schema_version" asInt,
         molecule := ← req kw "molecule" molObjOf, driver := ← req kw "driver" driverOf, model := ← req kw "model" modelOf,
         keywords := ← opt kw "keywords" asDict, protocols := ← opt kw "protocols" protoOf, extras := ← opt kw "extras" asDict,
         provenance := ← opt kw "provenance" provOf }

def ainOf (v : Val) : Option AInIn := do
  let kw ← asDict v
  closed kw ainKeys
  ainOfKw kw

def propArrOf (k : String) : Option PropArr := PropArr.all.find? (fun a => a.name == k)
def arrKeyOf (k : String) : Option ArrKey := ArrKey.all.find? (fun a => a.name == k)
def ptrKeyOf (k : String) : Option PtrKey := PtrKey.all.find? (fun a => a.name == k)

def propsOf (v : Val) : Option PropsIn := do
  let kw ← asDict v
  kw.foldlM (fun (p : PropsIn) kv =>
    match kv.2 with
    | .null => some p
    | x =>
      match propArrOf kv.1 with
      | some a => (asArr x).map (fun ar => { p with arrs := p.arrs ++ [(a, ar)] })
      | none =>
        match ownerTy propsFields kv.1 with
        | some (.int none) => (asInt x).map (fun i => { p with ints := p.ints ++ [(kv.1, i)] })
        | some (.float none none) => (asNum x).map (fun q => { p with nums := p.nums ++ [(kv.1, q)] })
        | _ => none) {}

def wfnOf (v : Val) : Option WfnIn := do
  let kw ← asDict v
  let basis ← req kw "basis" basisOf
  let restricted ← req kw "restricted" asBool
  (rest kw ["basis", "restricted"]).foldlM (fun (w : WfnIn) kv =>
    match kv.2 with
    | .null => some w
    | x =>
      match arrKeyOf kv.1, ptrKeyOf kv.1 with
      | some a, _ => (asArr x).map (fun ar => { w with arrs := w.arrs ++ [(a, ar)] })
      | none, some pk => ((asStr x).bind arrKeyOf).map (fun t => { w with ptrs := w.ptrs ++ [(pk, t)] })
      | none, none => none) { basis := basis, restricted := restricted }

def errOf (v : Val) : Option ErrIn := do
  let kw ← asDict v
  closed kw ["error_type", "error_message", "extras"]
  pure { errorType := ← req kw "error_type" asStr, errorMessage := ← req kw "error_message" asStr, extras := ← opt kw "extras" asDict }

def rrOf : Val → Option RRIn
  | .int i => some (.scalar (.ofInt i))
  | .num q => some (.scalar (.ofRat q))
  | .dict kvs => some (.dict kvs)
  | v => (asArr v).map .arr

def optNull {α : Type} (kw : Kw) (k : String) (f : Val → Option α) : Option (Option (Option α)) :=
  match assoc k kw with
  | none => some none
  | some .null => some (some none)
  | some v => (f v).map (fun a => some (some a))

def aresOf (v : Val) : Option AResIn := do
  let kw ← asDict v
  closed kw (ainKeys ++ ["properties", "wavefunction", "return_result", "stdout", "stderr", "native_files", "success", "error"])
  pure { inp := ← ainOfKw kw, properties := ← req kw "properties" propsOf, wavefunction := ← opt kw "wavefunction" wfnOf,
         returnResult := ← req kw "return_result" rrOf, stdout := ← optNull kw "stdout" asStr, stderr := ← optNull kw "stderr" asStr,
         nativeFiles := ← opt kw "native_files" asDict, success := ← req kw "success" asBool, error := ← opt kw "error" errOf }

/-- `<ok> <uniq> <value or none>` for one `build` line -/
def build (model : String) (v : Val) : Option (Bool × Bool × Option Val) :=
  match model with
  | "Provenance" => (provOf v).map (fun p => (p.ok, true, some (provVal p)))
  | "BasisSet" => (basisOf v).map (fun b => (b.ok, b.uniq, some (basisVal b)))
  | "AtomicResultProperties" => (propsOf v).map (fun p => (p.kindsOk, true, propsVal p))
  | "AtomicInput" => (ainOf v).map (fun i => (i.ok, i.uniq, some (ainVal i)))
  | "AtomicResult" => (aresOf v).map (fun r => (r.ok, r.uniq, aresVal r))
  | _ => none

end QcelVerif.ResultKwargs
