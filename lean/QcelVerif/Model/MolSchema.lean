/-
C09 (b) — record-level model of the molrec <-> QCSchema dictionary translation.

  * `toSchema`     qcelemental/molparse/to_schema.py:40-112   (dtype 1 and 2, units = "Bohr")
  * `fromSchema`   qcelemental/molparse/from_schema.py:27-95  (version sniffing, fragment pattern,
                   the keyword arguments handed to `from_arrays`)
  * `contiguize`   qcelemental/molparse/from_schema.py:98-205 with `throw_reorder=True`

Core Lean only; scalars are a generic `K` (the driver runs it at `K = Rat`, every double exactly).
`from_arrays` itself (the validation pipeline, C04/C05/C06) is a parameter `fa`: `fromSchema` is
modelled up to and including the argument record it hands over.  `np_out` only changes the
container type (ndarray / list) of the same values and is not represented; provenance is copied by
`to_schema` and overwritten by `from_schema`'s own stamp (from_schema.py:93) and is compared by the
harness only.  The `formula_generator` used for a missing name is a parameter `fg`.
-/
namespace QcelVerif.MolSchema

inductive Units where
  | bohr | angstrom
  deriving DecidableEq, Repr

inductive Err where
  | validation      -- qcelemental ValidationError
  | key             -- KeyError (a required key of the dictionary is missing)
  | index           -- IndexError (`vsplt[-1]` of an empty pattern)
  deriving DecidableEq, Repr

/-- the molparse record (`molrec`) as far as `to_schema` reads it -/
structure Molrec (K : Type) where
  units : Units
  iutau : Option K                       -- "input_units_to_au" in molrec
  geom : List K                          -- flat, 3 * nat
  elea : List Int
  elez : List Int
  elem : List String
  mass : List K
  real : List Bool
  elbl : List String
  seps : List Nat                        -- fragment_separators
  fragCharges : List K
  fragMults : List Int
  charge : K
  mult : Int
  fixCom : Bool
  fixOri : Bool
  fixSym : Option String
  name : Option String
  comment : Option String
  connectivity : Option (List (Nat × Nat × K))
  deriving DecidableEq, Repr

/-- the `molecule` dictionary; keys read with `.get` by `from_schema` are optional -/
structure MolDict (K : Type) where
  symbols : Option (List String)
  geometry : Option (List K)
  masses : Option (List K)
  atomicNumbers : Option (List Int)
  massNumbers : Option (List Int)
  atomLabels : Option (List String)
  real : Option (List Bool)
  name : Option String
  comment : Option String
  charge : Option K
  mult : Option Int
  fragments : Option (List (List Int))
  fragCharges : Option (List K)
  fragMults : Option (List Int)
  fixCom : Option Bool
  fixOri : Option Bool
  fixSym : Option String
  connectivity : Option (List (Nat × Nat × K))
  validated : Option Bool
  deriving DecidableEq, Repr

/-- what `from_schema` receives: `schema_name`, `schema_version`, the nested `"molecule"` entry
(version 1) and the molecule keys found at top level (version 2) -/
structure SchemaDict (K : Type) where
  schemaName : Option String
  schemaVersion : Option Int
  molecule : Option (MolDict K)
  top : MolDict K
  deriving DecidableEq, Repr

/-- keyword arguments of the `from_arrays` call (from_schema.py:61-90); `units="Bohr"`,
`input_units_to_au=None`, `domain="qm"`, `speclabel=False` are constants of the call -/
structure FAArgs (K : Type) where
  geom : List K
  elea : Option (List Int)
  elez : Option (List Int)
  elem : List String
  mass : Option (List K)
  real : Option (List Bool)
  elbl : Option (List String)
  name : Option String
  fixCom : Option Bool
  fixOri : Option Bool
  fixSym : Option String
  seps : List Nat
  fragCharges : Option (List K)
  fragMults : Option (List Int)
  charge : Option K
  mult : Option Int
  comment : Option String
  connectivity : Option (List (Nat × Nat × K))
  deriving DecidableEq, Repr

/-! ### to_schema -/

/-- `np.split(a, seps)`: slices `a[0:s₁], a[s₁:s₂], …, a[s_k:]` with Python's clamping -/
def npSplitAux {α : Type} (a : List α) : Nat → List Nat → List (List α)
  | start, [] => [a.drop start]
  | start, s :: rest => ((a.take s).drop start) :: npSplitAux a s rest

def npSplit {α : Type} (a : List α) (seps : List Nat) : List (List α) := npSplitAux a 0 seps

/-- to_schema.py:44-49 with `units = "Bohr"`: untouched if stored in Bohr; the record's own
`input_units_to_au` if it has one; otherwise the default conversion factor `dflt` -/
def exportGeom {K : Type} [Mul K] (dflt : K) (r : Molrec K) : List K :=
  match r.units with
  | .bohr => r.geom
  | .angstrom =>
    match r.iutau with
    | some f => r.geom.map (· * f)
    | none => r.geom.map (· * dflt)

def nameOf {K : Type} (fg : List String → String) (r : Molrec K) : String :=
  match r.name with
  | some n => n
  | none => fg r.elem

/-- to_schema.py:68-93: the `molecule` dictionary; `nat = geom.shape[0] // 3` -/
def molDict {K : Type} [Mul K] (dflt : K) (fg : List String → String) (r : Molrec K) : MolDict K :=
  { symbols := some r.elem
    geometry := some (exportGeom dflt r)
    masses := some r.mass
    atomicNumbers := some r.elez
    massNumbers := some r.elea
    atomLabels := some r.elbl
    real := some r.real
    name := some (nameOf fg r)
    comment := r.comment
    charge := some r.charge
    mult := some r.mult
    fragments := some ((npSplit (List.range (r.geom.length / 3)) r.seps).map (·.map Int.ofNat))
    fragCharges := some r.fragCharges
    fragMults := some r.fragMults
    fixCom := some r.fixCom
    fixOri := some r.fixOri
    fixSym := r.fixSym
    connectivity := r.connectivity
    validated := some true }

def emptyDict {K : Type} : MolDict K :=
  { symbols := none, geometry := none, masses := none, atomicNumbers := none, massNumbers := none,
    atomLabels := none, real := none, name := none, comment := none, charge := none, mult := none,
    fragments := none, fragCharges := none, fragMults := none, fixCom := none, fixOri := none,
    fixSym := none, connectivity := none, validated := none }

inductive Version where
  | v1 | v2
  deriving DecidableEq, Repr

/-- to_schema.py:95-99 -/
def toSchema {K : Type} [Mul K] (dflt : K) (fg : List String → String) (r : Molrec K) : Version → SchemaDict K
  | .v1 => { schemaName := some "qcschema_input", schemaVersion := some 1,
             molecule := some (molDict dflt fg r), top := emptyDict }
  | .v2 => { schemaName := some "qcschema_molecule", schemaVersion := some 2,
             molecule := none, top := molDict dflt fg r }

/-! ### from_schema -/

def startsWith (s p : String) : Bool := p.toList.isPrefixOf s.toList

/-- from_schema.py:27-41: which dictionary holds the molecule keys -/
def sniff {K : Type} (d : SchemaDict K) : Except Err (MolDict K) :=
  let nm := d.schemaName.getD ""
  if (startsWith nm "qc_schema" || startsWith nm "qcschema") && d.schemaVersion == some 1 then
    match d.molecule with
    | some ms => .ok ms
    | none => .error .key
  else if startsWith nm "qcschema_molecule" && d.schemaVersion == some 2 then
    .ok d.top
  else .error .validation

def cumsumFrom : Nat → List Nat → List Nat
  | _, [] => []
  | acc, k :: ks => (acc + k) :: cumsumFrom (acc + k) ks

def insertSorted (x : Int) : List Int → List Int
  | [] => [x]
  | y :: ys => if x ≤ y then x :: y :: ys else y :: insertSorted x ys

def sortInts : List Int → List Int
  | [] => []
  | x :: xs => insertSorted x (sortInts xs)

def arange (n : Nat) : List Int := (List.range n).map Int.ofNat

def lenOk {α : Type} (nat : Nat) : Option (List α) → Bool
  | some l => l.length == nat
  | none => true

structure Contig (K : Type) where
  seps : List Nat
  geom : List K
  elea : Option (List Int)
  elez : Option (List Int)
  elem : Option (List String)
  mass : Option (List K)
  real : Option (List Bool)
  elbl : Option (List String)

/-- `contiguize_from_fragment_pattern(..., throw_reorder=True)` (from_schema.py:152-205) -/
def contiguize {K : Type} (pat : List (List Int)) (geom : List K) (elea elez : Option (List Int))
    (elem : Option (List String)) (mass : Option (List K)) (real : Option (List Bool))
    (elbl : Option (List String)) : Except Err (Contig K) :=
  let vsplt := cumsumFrom 0 (pat.map List.length)             -- 134
  match vsplt.getLast? with
  | none => .error .index                                      -- 135: `vsplt[-1]` of an empty cumsum
  | some nat =>
    let seps := vsplt.dropLast                                 -- 136
    match pat with
    | [only] =>
      if only == arange nat then                               -- 157: one fragment listing 0..nat-1 in order
        if geom.length % 3 != 0 then .error .validation        -- 164: `_geom_nx3` (not castable to (nat, 3))
        else if nat != geom.length / 3 then .error .validation -- 165-166: dropped atoms
        else .ok { seps := seps, geom := geom, elea := elea, elez := elez, elem := elem,
                   mass := mass, real := real, elbl := elbl }
      else .error .validation   -- 171-182: a single fragment that is not arange(nat) skips atoms or would reorder
    | _ =>
      let cat := pat.flatten
      if sortInts cat != arange nat then .error .validation    -- 153-154: pattern skips atoms
      else if cat != arange nat then .error .validation        -- 156-163: non-contiguous, `throw_reorder`
      else if geom.length % 3 != 0 then .error .validation     -- 184: `_geom_nx3`
      else if nat != geom.length / 3 then .error .validation   -- 167-168: dropped atoms
      else if !(lenOk nat elea && lenOk nat elez && lenOk nat elem && lenOk nat mass &&
                lenOk nat real && lenOk nat elbl) then .error .validation   -- 172-174: wrong number of atoms
      else
        -- 169-170, 175: `np.vstack([ncgeom[fr] ...])`, `np.concatenate([arr[fr] ...])`: at this point
        -- `concatenate(pat) = arange(nat)` and every array has `nat` rows, so the gather is the identity
        .ok { seps := seps, geom := geom, elea := elea, elez := elez, elem := elem,
              mass := mass, real := real, elbl := elbl }

/-- from_schema.py:27-90 up to the `from_arrays` call -/
def fromSchemaArgs {K : Type} (d : SchemaDict K) : Except Err (FAArgs K) := do
  let ms ← sniff d
  match ms.symbols, ms.geometry with
  | some symbols, some geometry =>
    let pat := match ms.fragments with                          -- 43-46
      | some p => p
      | none => [arange symbols.length]
    let dc ← contiguize pat geometry ms.massNumbers ms.atomicNumbers (some symbols) ms.masses ms.real ms.atomLabels
    match dc.elem with
    | some elem =>
      pure { geom := dc.geom, elea := dc.elea, elez := dc.elez, elem := elem, mass := dc.mass,
             real := dc.real, elbl := dc.elbl, name := ms.name, fixCom := ms.fixCom, fixOri := ms.fixOri,
             fixSym := ms.fixSym, seps := dc.seps, fragCharges := ms.fragCharges, fragMults := ms.fragMults,
             charge := ms.charge, mult := ms.mult, comment := ms.comment, connectivity := ms.connectivity }
    | none => .error .key
  | _, _ => .error .key                                        -- `ms["symbols"]` / `ms["geometry"]`

def fromSchema {K : Type} (fa : FAArgs K → Except Err (Molrec K)) (d : SchemaDict K) : Except Err (Molrec K) :=
  fromSchemaArgs d >>= fa

/-! ### the record invariant (the part of C04's `Molrec.Inv` that the translation needs) -/

def sortedLe : Nat → List Nat → Bool
  | _, [] => true
  | lo, s :: t => decide (lo ≤ s) && sortedLe s t

structure Inv {K : Type} (r : Molrec K) : Prop where
  geom3 : r.geom.length = 3 * r.elem.length
  nonempty : 0 < r.elem.length
  elea : r.elea.length = r.elem.length
  elez : r.elez.length = r.elem.length
  mass : r.mass.length = r.elem.length
  real : r.real.length = r.elem.length
  elbl : r.elbl.length = r.elem.length
  sepsSorted : sortedLe 0 r.seps = true                      -- non-decreasing …
  sepsLe : ∀ s ∈ r.seps, s ≤ r.elem.length                   -- … and inside the atom range

/-- the record as `from_arrays` is asked to rebuild it: Bohr geometry, every array given -/
def argsOf {K : Type} [Mul K] (dflt : K) (fg : List String → String) (r : Molrec K) : FAArgs K :=
  { geom := exportGeom dflt r, elea := some r.elea, elez := some r.elez, elem := r.elem, mass := some r.mass,
    real := some r.real, elbl := some r.elbl, name := some (nameOf fg r), fixCom := some r.fixCom,
    fixOri := some r.fixOri, fixSym := r.fixSym, seps := r.seps, fragCharges := some r.fragCharges,
    fragMults := some r.fragMults, charge := some r.charge, mult := some r.mult, comment := r.comment,
    connectivity := r.connectivity }

/-- the record expected back: same data, geometry in Bohr, no `input_units_to_au`, name filled in -/
def inBohr {K : Type} [Mul K] (dflt : K) (fg : List String → String) (r : Molrec K) : Molrec K :=
  { r with units := .bohr, iutau := none, geom := exportGeom dflt r, name := some (nameOf fg r) }

end QcelVerif.MolSchema
