import QcelVerif.Lib.Bst
import QcelVerif.Lib.PStr
/-
Model of `qcelemental/periodic_table.py` (C01), parameterised by the tables
(`Tables`), so that general theorems hold for *any* table and table-wide theorems are
kernel evaluations over the generated, shipped one.  Core Lean only.

  * index dictionaries (periodic_table.py:42-66)          -> `Tables`
  * `_resolve_atom_to_key` cascade (68-98)                -> `resolve`
  * accessors to_Z/to_E/to_element/to_A/to_mass (100-245) -> `toZ` …
  * period ladder / group lists (247-347)                 -> `periodOfZ`, `groupOfZ`
-/
namespace QcelVerif.PT
open QcelVerif.PStr

/-- documented argument types: `Union[int, str]` (ASCII strings) -/
inductive PyVal where
  | int (i : Int)
  | str (s : Bytes)
  deriving Repr, DecidableEq

structure Tables where
  /-- `_eliso2*`: packed EA key ↦ (packed _EE, A, packed mass string) -/
  eliso : Bst (Nat × Nat × Nat)
  /-- (Z, packed E, packed name) rows in file order -/
  elements : List (Nat × Nat × Nat)

namespace Tables
variable (T : Tables)

/-- `dict(zip(a, b))[k]` over an association list in file order: the LAST duplicate wins -/
def lastAssoc {α β} [BEq α] (l : List (α × β)) (k : α) : Option β :=
  l.foldl (fun acc p => if p.1 == k then some p.2 else acc) none

/-- `_z2el[z]` -/
def z2el (z : Int) : Option Nat :=
  if z < 0 then none else lastAssoc (T.elements.map (fun r => (r.1, r.2.1))) z.toNat
/-- `_element2el[name]` -/
def name2el (n : Nat) : Option Nat := lastAssoc (T.elements.map (fun r => (r.2.2, r.2.1))) n
/-- `_el2z[E]` -/
def el2z (e : Nat) : Option Nat := lastAssoc (T.elements.map (fun r => (r.2.1, r.1))) e
/-- `_el2element[E]` -/
def el2name (e : Nat) : Option Nat := lastAssoc (T.elements.map (fun r => (r.2.1, r.2.2))) e
/-- `eliso in self.E` -/
def isElementSymbol (e : Nat) : Bool := T.elements.any (fun r => r.2.1 == e)

/-- `resolve_eliso` (periodic_table.py:74-91): nuclide key of the capitalised text, else
`int(atom)` as atomic number, else element name of the capitalised text.  `none` = NotAnElementError. -/
def resolveEliso : PyVal → Option Nat
  | .int i => T.z2el i                      -- .capitalize() -> AttributeError; int(atom) = atom; name lookup -> AttributeError
  | .str s =>
      let k := pack (capitalize s)
      if T.eliso.contains k then some k
      else
        match (match pyInt s with | some z => T.z2el z | none => none) with
        | some e => some e
        | none => T.name2el k

/-- `_resolve_atom_to_key` -/
def resolve (a : PyVal) (strict : Bool) : Option Nat :=
  match T.resolveEliso a with
  | none => none
  | some k => if strict && !(T.isElementSymbol k) then none else some k

/-! accessors: `none` = NotAnElementError (a KeyError from an inconsistent table is `none` too) -/

def toE (a : PyVal) (strict : Bool) : Option Nat :=
  (T.resolve a strict).bind fun k => (T.eliso.lookup k).map (·.1)
def toZ (a : PyVal) (strict : Bool) : Option Nat := (T.toE a strict).bind T.el2z
def toName (a : PyVal) (strict : Bool) : Option Nat := (T.toE a strict).bind T.el2name
def toA (a : PyVal) : Option Nat := (T.resolve a false).bind fun k => (T.eliso.lookup k).map (·.2.1)
/-- mass as its (packed) decimal string; `Decimal(str)` and `float(str)` are applied by the caller -/
def toMass (a : PyVal) : Option Nat := (T.resolve a false).bind fun k => (T.eliso.lookup k).map (·.2.2)

end Tables

/-- the period ladder (periodic_table.py:268-283) -/
def periodOfZ (z : Nat) : Nat :=
  if z ≤ 2 then 1 else if z ≤ 10 then 2 else if z ≤ 18 then 3 else if z ≤ 36 then 4
  else if z ≤ 54 then 5 else if z ≤ 86 then 6 else if z ≤ 118 then 7 else 8

/-- the group membership lists (periodic_table.py:309-346) -/
def groupOfZ (z : Nat) : Option Nat :=
  if [1, 3, 11, 19, 37, 55, 87].contains z then some 1
  else if [4, 12, 20, 38, 56, 88].contains z then some 2
  else if [21, 39].contains z then some 3
  else if [22, 40, 72, 104].contains z then some 4
  else if [23, 41, 73, 105].contains z then some 5
  else if [24, 42, 74, 106].contains z then some 6
  else if [25, 43, 75, 107].contains z then some 7
  else if [26, 44, 76, 108].contains z then some 8
  else if [27, 45, 77, 109].contains z then some 9
  else if [28, 46, 78, 110].contains z then some 10
  else if [29, 47, 79, 111].contains z then some 11
  else if [30, 48, 80, 112].contains z then some 12
  else if [5, 13, 31, 49, 81, 113].contains z then some 13
  else if [6, 14, 32, 50, 82, 114].contains z then some 14
  else if [7, 15, 33, 51, 83, 115].contains z then some 15
  else if [8, 16, 34, 52, 84, 116].contains z then some 16
  else if [9, 17, 35, 53, 85, 117].contains z then some 17
  else if [2, 10, 18, 36, 54, 86, 118].contains z then some 18
  else none

def Tables.toPeriod (T : Tables) (a : PyVal) : Option Nat := (T.toZ a false).map periodOfZ
/-- outer `none` = NotAnElementError, inner `none` = Python `None` (f-block, dummy) -/
def Tables.toGroup (T : Tables) (a : PyVal) : Option (Option Nat) := (T.toZ a false).map groupOfZ

/-! ### independent statement of the standard 18-column layout -/

/-- noble-gas atomic numbers close the periods -/
def nobleGases : List Nat := [2, 10, 18, 36, 54, 86, 118]

/-- period = 1 + number of completed periods -/
def specPeriod (z : Nat) : Nat := 1 + (nobleGases.filter (· < z)).length

/-- first atomic number of a period -/
def periodStart (p : Nat) : Nat :=
  match p with
  | 1 => 1 | 2 => 3 | 3 => 11 | 4 => 19 | 5 => 37 | 6 => 55 | 7 => 87 | _ => 119

/-- group from the offset inside the period: s-block columns 1–2, then (for the short periods) a
jump to 13, (for the 18-long periods) straight through, (for the 32-long periods) the 15 f-block
elements after column 2 have no group and the rest continue at 4. Dummy (Z=0) and Z>118: none. -/
def specGroup (z : Nat) : Option Nat :=
  if z = 0 ∨ z > 118 then none
  else
    let p := specPeriod z
    let o := z - periodStart p        -- 0-based offset in the period
    if p = 1 then (if o = 0 then some 1 else some 18)
    else if p ≤ 3 then (if o < 2 then some (o + 1) else some (o + 11))
    else if p ≤ 5 then some (o + 1)
    else if o < 2 then some (o + 1) else if o < 17 then none else some (o - 13)

end QcelVerif.PT
