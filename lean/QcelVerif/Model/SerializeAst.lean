/-
C10 — a small statement / expression AST for `qcelemental/util/serialization.py`.

`harness/c10_src.py` reads the file by `ast` on every run and translates every function body and both encoder classes'
`default` methods into terms of THIS type (`Gen/SerializeSrc.lean`); `Model/SerializeSrc.lean` evaluates them on the
model's own value trees (`Val`), `Props/C10Src.lean` proves the results equal to the hand model `Model/Serialize.lean`
for ALL inputs.  Core Lean only (the driver imports this file).

What is kept of the source: the ORDER of statements and of `if`/`elif` arms, every tested condition with the class /
string / key it names, dict literals with their keys in source order, the named numpy / bytes / pydantic primitives and
their argument order, every call of a module-level function or third-party codec with its keyword arguments, `raise`
with the exception class, `assert`.  What is dropped: docstrings, annotations, the text of exception messages.  Anything
else makes the translator raise (the check then reports a broken obligation).
-/
namespace QcelVerif.Ser.Ast

/-- the named primitives the translator recognises (anything else: translation error) -/
inductive Prim where
  | pydanticEncoder       -- `pydantic_encoder(x)`
  | jsonDefault           -- `json.JSONEncoder.default(self, x)`
  | shape                 -- `x.shape`
  | dtypeStr              -- `x.dtype.str`
  | ascontiguous          -- `np.ascontiguousarray(x)`
  | tobytes               -- `x.tobytes()`
  | hex                   -- `x.hex()`
  | fromhex               -- `bytes.fromhex(x)`
  | frombuffer            -- `np.frombuffer(x, dtype=y)`   args [x, y]
  | reshape               -- `x.reshape(y)`                args [x, y]
  | ravel                 -- `x.ravel()`
  | tolist                -- `x.tolist()`
  | item                  -- `x.item()`
  | dictCall              -- `x.dict()`
  | real                  -- `x.real`
  | imag                  -- `x.imag`
  | len                   -- `len(x)`
  | lower                 -- `x.lower()`
  | getitem               -- `x[k]`                        args [x, k]
  | contains              -- `k in x`                      args [k, x]
  | gt                    -- `a > b`
  | eq                    -- `a == b`
  | isinstance (cls : String)   -- `isinstance(x, cls)`; `cls` is the source text of the class expression
deriving Repr, BEq, DecidableEq

inductive Expr where
  | var (n : String)                       -- a local name (parameter or assigned variable)
  | ref (n : String)                       -- a module-level function / class handed on as a value (`cls=`, `default=`, `object_hook=`)
  | str (s : String)                       -- `"…"`
  | bytes (s : String)                     -- `b"…"` (ASCII)
  | bool (b : Bool)
  | nat (n : Nat)
  | list (l : List Expr)                   -- `[a, b]`
  | dict (kv : List (Expr × Expr))         -- `{k: v, …}` in source order
  | prim (p : Prim) (args : List Expr)
  | call (fn : String) (args : List Expr) (kw : List (String × Expr))   -- `fn(args, k=v, …)`, `fn` as dotted source text

inductive Stmt where
  | ret (e : Expr)                                   -- `return e`
  | assign (x : String) (e : Expr)                   -- `x = e`
  | setItem (x : String) (k e : Expr)                -- `x[k] = e`
  | setAttr (x : String) (a : String) (e : Expr)     -- `x.a = e`
  | ite (c : Expr) (t f : List Stmt)                 -- `if c: t else: f` (an `elif` is an `ite` alone in `f`)
  | tryRet (e : Expr) (exc : String)                 -- `try: return e` / `except exc: pass`
  | raise (exc : String)                             -- `raise exc(…)`
  | assert_ (c : Expr)                               -- `assert c`
  | exprStmt (e : Expr)                              -- an expression statement (`which_import(...)`)

/-- a function (or a `default` method: `self` is dropped from `params`) -/
structure FnDef where
  name : String
  params : List String
  body : List Stmt

/-- top-level items of the module, in source order (import guards are structural no-ops for the evaluator) -/
inductive Top where
  | imp (what : String)                                 -- `import x` / `from x import y`
  | tryImport (body : List String) (exc : String) (handler : List String)   -- `try: import … except E: … | pass`
  | const (name : String)                               -- a module-level string constant
  | fn (name : String)
  | cls (name : String) (base : String) (methods : List String)
deriving Repr, BEq, DecidableEq

end QcelVerif.Ser.Ast
