import QcelVerif.Lib.PStr
/-!
# `Dec` — Python `decimal.Decimal` (finite values) under the default context

Default context = `Context(prec=28, rounding=ROUND_HALF_EVEN)`; the exponent limits
(`Emin=-999999`, `Emax=999999`) are never approached by the constants code and are NOT modelled
(no overflow / subnormal clamping).  Follows CPython's reference implementation `Lib/_pydecimal.py`
(the C accelerator `_decimal` implements the same General Decimal Arithmetic specification):

 * `Decimal(str)`            — `_pydecimal.py` `Decimal.__new__` / `_parser`  → `Dec.parse` (exact, no rounding)
 * `Decimal._fix`            — rounding of a result to 28 significant digits  → `Dec.fix`
 * `__mul__`, `__truediv__`, `__add__`, `__sub__`                              → `Dec.mul/div/add/sub`
 * `float(Decimal)` = `float(str(d))`, correctly rounded (round-half-even)    → `Dec.toF64` (IEEE-754 bits)

Core Lean only (the driver imports it).  A byte-list literal macro `b!"text"` is provided because
kernel evaluation of `String` is unusably slow.
-/
namespace QcelVerif

open Lean in
/-- `b!"abc"` = `[97, 98, 99]` (ASCII bytes, expanded at elaboration time) -/
macro:max "b!" s:str : term => do
  let bytes : Array (TSyntax `term) :=
    (s.getString.toList.map (fun c => (Syntax.mkNumLit (toString c.toNat) : TSyntax `term))).toArray
  `(([$bytes,*] : List Nat))

/-- finite `decimal.Decimal`: `(-1)^neg · coeff · 10^exp` (`as_tuple()` = sign, digits of coeff, exponent) -/
structure Dec where
  neg : Bool
  coeff : Nat
  exp : Int
deriving DecidableEq, Repr

namespace Dec
open PStr

/-- context precision -/
def prec : Nat := 28

def ndigitsAux : Nat → Nat → Nat → Nat
  | 0, _, acc => acc
  | f + 1, n, acc => if n < 10 then acc else ndigitsAux f (n / 10) (acc + 1)

/-- `len(str(n))` (so `ndigits 0 = 1`).  The fuel is `n` itself: a number has at most `n + 1` digits, so
the recursion never runs out (`Lemmas/DecBounds.lean: ndigits_eq`, `ndigits n = 1 + ⌊log₁₀ n⌋` for every
`n`; until the wave-1 extension the fuel was the constant 2000, which made `fix` wrong beyond
2001-digit coefficients).  The recursion stops at `n < 10`, so only `ndigits n` steps are ever unfolded. -/
def ndigits (n : Nat) : Nat := ndigitsAux n n 1

/-- drop the last `k` decimal digits of `c`, ROUND_HALF_EVEN (`_round_half_even`) -/
def roundHalfEven (c k : Nat) : Nat :=
  let p := 10 ^ k
  let q := c / p
  let r := c % p
  if 2 * r > p then q + 1
  else if 2 * r == p then (if q % 2 == 0 then q else q + 1)
  else q

/-- `Decimal._fix(context)` for finite values, exponent limits ignored: round to `prec` digits;
a carry to `10^prec` drops one more digit (`coeff[:-1]; exp_min += 1`). -/
def fix (d : Dec) : Dec :=
  if d.coeff == 0 then d
  else
    let n := ndigits d.coeff
    if n ≤ prec then d
    else
      let k := n - prec
      let c := roundHalfEven d.coeff k
      if ndigits c > prec then ⟨d.neg, c / 10, d.exp + k + 1⟩ else ⟨d.neg, c, d.exp + k⟩

/-- `Decimal.__mul__` -/
def mul (a b : Dec) : Dec := fix ⟨a.neg != b.neg, a.coeff * b.coeff, a.exp + b.exp⟩

def stripZerosAux : Nat → Nat → Int → Int → Nat × Int
  | 0, c, e, _ => (c, e)
  | f + 1, c, e, ideal => if e < ideal && c % 10 == 0 then stripZerosAux f (c / 10) (e + 1) ideal else (c, e)

/-- `Decimal.__truediv__`; `none` = DivisionByZero / InvalidOperation (0/0) -/
def div (a b : Dec) : Option Dec :=
  if b.coeff == 0 then none
  else
    let sign := a.neg != b.neg
    if a.coeff == 0 then some (fix ⟨sign, 0, a.exp - b.exp⟩)
    else
      let shift : Int := (ndigits b.coeff : Int) - (ndigits a.coeff : Int) + (prec : Int) + 1
      let exp : Int := a.exp - b.exp - shift
      let (n, d) := if shift ≥ 0 then (a.coeff * 10 ^ shift.toNat, b.coeff) else (a.coeff, b.coeff * 10 ^ (-shift).toNat)
      let coeff := n / d
      let rem := n % d
      if rem != 0 then
        -- inexact: make the dropped digit non-zero / not exactly 5 so that `_fix` rounds correctly
        some (fix ⟨sign, if coeff % 5 == 0 then coeff + 1 else coeff, exp⟩)
      else
        -- exact: get as close to the ideal exponent as possible
        let ce := stripZerosAux 2000 coeff exp (a.exp - b.exp)
        some (fix ⟨sign, ce.1, ce.2⟩)

/-- zero padding of `x` down to exponent `max e (x.exp - prec - 1)` (`other._rescale(exp, rounding)` in `__add__`), then `_fix` -/
def padTo (x : Dec) (e : Int) : Dec :=
  let e' := max e (x.exp - (prec : Int) - 1)
  fix ⟨x.neg, x.coeff * 10 ^ (x.exp - e').toNat, e'⟩

/-- `Decimal.__add__`: zero operands first (sign of `0 + 0` is negative only if both are; `0 + x` is
`x` padded towards the smaller exponent); otherwise the exact sum at the smaller exponent, then
`_fix` (`_normalize`'s shortcut for far-apart exponents is result-preserving); equal and opposite
operands give `+0`. -/
def add (a b : Dec) : Dec :=
  let e := min a.exp b.exp
  if a.coeff == 0 && b.coeff == 0 then fix ⟨a.neg && b.neg, 0, e⟩
  else if a.coeff == 0 then padTo b e
  else if b.coeff == 0 then padTo a e
  else
    let ca : Int := (a.coeff * 10 ^ (a.exp - e).toNat : Nat)
    let cb : Int := (b.coeff * 10 ^ (b.exp - e).toNat : Nat)
    let s : Int := (if a.neg then -ca else ca) + (if b.neg then -cb else cb)
    if s == 0 then fix ⟨false, 0, e⟩ else fix ⟨decide (s < 0), s.natAbs, e⟩

/-- `Decimal.__sub__` = `self + other.copy_negate()` -/
def sub (a b : Dec) : Dec := add a ⟨!b.neg, b.coeff, b.exp⟩

/-! ### `Decimal(str)` -/

def takeDigits : Bytes → Bytes × Bytes
  | [] => ([], [])
  | c :: t => if isDigit c then let r := takeDigits t; (c :: r.1, r.2) else ([], c :: t)

/-- `Decimal(text)` for finite ASCII numerals: surrounding whitespace, sign, digits with optional
fraction (`12`, `12.`, `.5`, `1.E10`), optional exponent.  `none` = InvalidOperation.  No rounding. -/
def parse (s0 : Bytes) : Option Dec :=
  let sb := pySign (strip s0)
  let (ip, r1) := takeDigits sb.2
  let (fp, r2) : Bytes × Bytes := match r1 with
    | 46 :: t => takeDigits t
    | _ => ([], r1)
  if ip.isEmpty && fp.isEmpty then none
  else
    let coeff := digitsVal (ip ++ fp)
    match r2 with
    | [] => some ⟨sb.1, coeff, -(fp.length : Int)⟩
    | c :: t =>
      if c == 101 || c == 69 then
        let se := pySign t
        let (ed, r3) := takeDigits se.2
        if ed.isEmpty || !r3.isEmpty then none
        else
          let ev : Int := digitsVal ed
          some ⟨sb.1, coeff, (if se.1 then -ev else ev) - (fp.length : Int)⟩
      else none

/-! ### `float(Decimal)` -/

/-- `⌊log2 n⌋` for `1 ≤ n < 2^8192`, found greedily over the binary digits of the answer
(`Nat.log2` is not accelerated in the kernel) -/
def log2g (n : Nat) : Nat :=
  [4096, 2048, 1024, 512, 256, 128, 64, 32, 16, 8, 4, 2, 1].foldl
    (fun l s => match Nat.ble (2 ^ (l + s)) n with | true => l + s | false => l) 0

/-- IEEE-754 binary64 bit pattern of the double nearest (ties to even) to `(-1)^neg · num/den`
(`den > 0`); overflow gives ±inf, gradual underflow below `2^-1022`.\nValid for `num, den < 2^8192`. -/
def f64Bits (neg : Bool) (num den : Nat) : Nat :=
  let s := if neg then 2 ^ 63 else 0
  if num == 0 then s
  else
    -- ⌊log2 (num/den)⌋ ∈ {b-1, b}
    let b : Int := (log2g num : Int) - (log2g den : Int)
    let qr (e : Int) : Nat × Nat × Nat :=
      let n := if e ≥ 0 then num else num * 2 ^ (-e).toNat
      let d := if e ≥ 0 then den * 2 ^ e.toNat else den
      (n / d, n % d, d)
    let e0 : Int := b - 52
    let e1 : Int := if (qr e0).1 < 2 ^ 52 then e0 - 1 else e0   -- quotient now in [2^52, 2^53)
    let e : Int := max e1 (-1074)                               -- subnormal range: fixed ulp 2^-1074
    let (q, r, d) := qr e
    let m := if 2 * r > d then q + 1 else if 2 * r == d then (if q % 2 == 0 then q else q + 1) else q
    let be : Int := e + 1075                                    -- biased exponent of [2^52,2^53)·2^e
    if be ≥ 2047 then s + 2047 * 2 ^ 52
    else
      -- a carry to m = 2^53 (or from subnormal to normal) propagates into the exponent field by itself
      let bits := be.toNat * 2 ^ 52 + m - 2 ^ 52
      if bits ≥ 2047 * 2 ^ 52 then s + 2047 * 2 ^ 52 else s + bits

/-- `float(d)`: bits of the nearest double -/
def toF64 (d : Dec) : Nat :=
  if d.exp ≥ 0 then f64Bits d.neg (d.coeff * 10 ^ d.exp.toNat) 1
  else f64Bits d.neg d.coeff (10 ^ (-d.exp).toNat)

/-- exact value -/
def val (d : Dec) : Rat :=
  let m : Rat := (d.coeff : Nat)
  let v : Rat := if d.exp ≥ 0 then m * ((10 ^ d.exp.toNat : Nat) : Rat) else m / ((10 ^ (-d.exp).toNat : Nat) : Rat)
  if d.neg then -v else v

end Dec
end QcelVerif
