/-
C09 (a) — schema conformance of the JSON emitted for QCSchema model instances.

What is modelled (core Lean only):

  * `Json`     JSON documents as Python's `json.loads` sees them (`int` and `float` are distinct:
               `1` is an `int`, `1.0` a `float`; jsonschema's draft-04 `integer` accepts only `int`).
  * `Schema`   the JSON-Schema (draft-04) keywords that occur in the schemas QCElemental exports:
               type, properties, required, additionalProperties, items (single and positional),
               enum, anyOf, allOf, `$ref` into the root `definitions`, pattern, multipleOf (1.0),
               minItems, maxItems, uniqueItems, minimum, maximum.
  * `validate` a validator for those keywords (jsonschema `Draft4Validator` semantics).  `$ref`
               makes validation non-structural, so it is defined by fuel; running out of fuel
               REJECTS (never accepts).
  * `Ty`/`Decl` the field types that occur in the six schema-bearing models
               (qcelemental/models/__init__.py:25-33) and everything they reach, and
               `schemaOf`/`declSchema`: pydantic-v1's schema generation rules for this subset,
               including `TypedArray.__modify_schema__` (models/types.py:21-32), field aliases
               (molecule.py:317-327), `min_items` repeated on inner lists, `allOf`-wrapped
               references, and the two edit forms used by `schema_extra` in models/basis.py:38-43,
               114-119,143-146 (`uniqueItems`, number -> number|string).
  * `Val`      a model instance as it sits in memory (`self.__dict__` per model, with the
               `__fields_set__` information as `Val.unset`), ndarrays with their shape.
  * `emit`     `Model.json(exclude_unset=True, exclude_none=True)`: ProtoModel.dict
               (basemodels.py:109-126) -> pydantic `_iter` (unset / None fields dropped, keys by
               alias: molecule.py:592-595) -> `JSONArrayEncoder` (util/serialization.py:193-206:
               `ravel().tolist()`, rank-0 arrays decay to scalars).  None *inside* raw dicts is kept.
  * `hasType`  "this in-memory value inhabits this declared type" (executable, fuel for `$ref`).

pydantic itself (validation/coercion that produces the in-memory value, and the generation of the
exported schema) is a parameter: the harness extracts `Ty` terms and the exported schema from the
live classes on every run and Lean checks `declSchema = exported`, and checks `hasType` on every
generated instance.
-/
namespace QcelVerif.Schema

/-! ### JSON -/

inductive Json where
  | null
  | bool (b : Bool)
  | int (i : Int)
  | num (q : Rat)          -- a Python float (finite), exactly
  | str (s : String)
  | arr (xs : List Json)
  | obj (kvs : List (String × Json))
  deriving Inhabited

def assoc {β : Type} (k : String) : List (String × β) → Option β
  | [] => none
  | (k', v) :: t => if k = k' then some v else assoc k t

/- Python `==` on parsed JSON as jsonschema uses it for `enum` / `uniqueItems`
(bool is kept apart from numbers; `1 == 1.0`; dict comparison ignores key order). -/
mutual
def Json.beq : Json → Json → Bool
  | .null, .null => true
  | .bool a, .bool b => a == b
  | .int a, .int b => a == b
  | .num a, .num b => a == b
  | .int a, .num b => (a : Rat) == b
  | .num a, .int b => a == (b : Rat)
  | .str a, .str b => a == b
  | .arr a, .arr b => Json.beqList a b
  | .obj a, .obj b => a.length == b.length && Json.beqKvs a b
  | _, _ => false
def Json.beqList : List Json → List Json → Bool
  | [], [] => true
  | x :: xs, y :: ys => Json.beq x y && Json.beqList xs ys
  | _, _ => false
def Json.beqKvs : List (String × Json) → List (String × Json) → Bool
  | [], _ => true
  | (k, x) :: xs, b => (match assoc k b with | some y => Json.beq x y | none => false) && Json.beqKvs xs b
end

/-- pairwise distinct (jsonschema `uniqueItems`) -/
def uniqueJ : List Json → Bool
  | [] => true
  | x :: xs => !(xs.any (Json.beq x)) && uniqueJ xs

/-! ### schemas -/

inductive JType where
  | object | array | string | integer | number | boolean
  deriving DecidableEq, Repr

structure Schema where
  ref : Option String := none               -- `$ref: "#/definitions/<name>"`
  type : Option JType := none
  enum : Option (List Json) := none
  pattern : Option String := none
  multipleOf1 : Bool := false               -- `multipleOf: 1.0` (the only value that occurs)
  minimum : Option Int := none
  maximum : Option Int := none
  minItems : Option Nat := none
  maxItems : Option Nat := none
  uniqueItems : Bool := false
  items : Option Schema := none             -- `items: {…}`
  itemsTuple : Option (List Schema) := none -- `items: [{…}, …]` (positional)
  props : List (String × Schema) := []
  required : List String := []
  addlForbidden : Bool := false             -- `additionalProperties: false`
  addlSchema : Option Schema := none        -- `additionalProperties: {…}`
  anyOf : List Schema := []
  allOf : List Schema := []
  deriving Inhabited

/-! ### the few regular expressions that occur (`^(literal with \x escapes and x? options)$`) -/

inductive PatAtom where
  | ch (c : Char)
  | opt (c : Char)

def parseAtoms : List Char → Option (List PatAtom)
  | [] => some []
  | '\\' :: c :: '?' :: t => (parseAtoms t).map (PatAtom.opt c :: ·)
  | '\\' :: c :: t => (parseAtoms t).map (PatAtom.ch c :: ·)
  | c :: '?' :: t =>
      if c.isAlphanum || c == '_' then (parseAtoms t).map (PatAtom.opt c :: ·) else none
  | c :: t =>
      if c.isAlphanum || c == '_' || c == '-' then (parseAtoms t).map (PatAtom.ch c :: ·) else none

def matchAtoms : List PatAtom → List Char → Bool
  | [], [] => true
  | [], _ :: _ => false
  | .ch c :: ps, s => (match s with | d :: t => c == d && matchAtoms ps t | [] => false)
  | .opt c :: ps, s => (match s with | d :: t => (c == d && matchAtoms ps t) | [] => false) || matchAtoms ps s

def stripSuffix2 (l : List Char) : Option (List Char) :=
  match l.reverse with
  | '$' :: ')' :: r => some r.reverse
  | _ => none

def dropTrailingNl (l : List Char) : Option (List Char) :=
  match l.reverse with
  | '\n' :: r => some r.reverse
  | _ => none

/-- `re.search(pat, s)` for patterns of the form `^( … )$`; any other pattern form is rejected
(`false`), so an unknown pattern can only make validation fail, never pass.  As in CPython, `$`
also matches just before one trailing newline. -/
def matchPat (pat : String) (s : String) : Bool :=
  match pat.toList with
  | '^' :: '(' :: rest =>
    match stripSuffix2 rest with
    | some body =>
      (match parseAtoms body with
       | some as =>
         matchAtoms as s.toList ||
         (match dropTrailingNl s.toList with | some t => matchAtoms as t | none => false)
       | none => false)
    | none => false
  | _ => false

/-! ### the validator -/

def typeOk : JType → Json → Bool
  | .object, .obj _ => true
  | .array, .arr _ => true
  | .string, .str _ => true
  | .integer, .int _ => true
  | .number, .int _ => true
  | .number, .num _ => true
  | .boolean, .bool _ => true
  | _, _ => false

def chkType (s : Schema) (j : Json) : Bool :=
  match s.type with
  | some t => typeOk t j
  | none => true

def chkEnum (s : Schema) (j : Json) : Bool :=
  match s.enum with
  | some vs => vs.any (Json.beq j)
  | none => true

def chkPattern (s : Schema) (j : Json) : Bool :=
  match s.pattern, j with
  | some p, .str x => matchPat p x
  | _, _ => true

def optLe (lo : Option Int) (i : Int) : Bool := match lo with | some l => decide (l ≤ i) | none => true
def optGe (hi : Option Int) (i : Int) : Bool := match hi with | some h => decide (i ≤ h) | none => true
def optLeQ (lo : Option Int) (q : Rat) : Bool := match lo with | some l => decide ((l : Rat) ≤ q) | none => true
def optGeQ (hi : Option Int) (q : Rat) : Bool := match hi with | some h => decide (q ≤ (h : Rat)) | none => true

def chkNum (s : Schema) (j : Json) : Bool :=
  match j with
  | .int i => optLe s.minimum i && optGe s.maximum i
  | .num q => (!s.multipleOf1 || q.den == 1) && optLeQ s.minimum q && optGeQ s.maximum q
  | _ => true

def optMinLen (mn : Option Nat) (n : Nat) : Bool := match mn with | some m => decide (m ≤ n) | none => true
def optMaxLen (mx : Option Nat) (n : Nat) : Bool := match mx with | some m => decide (n ≤ m) | none => true

def chkArr (s : Schema) (j : Json) : Bool :=
  match j with
  | .arr xs => optMinLen s.minItems xs.length && optMaxLen s.maxItems xs.length && (!s.uniqueItems || uniqueJ xs)
  | _ => true

def hasKey (k : String) (kvs : List (String × Json)) : Bool := kvs.any (fun kv => kv.1 == k)

def chkRequired (s : Schema) (j : Json) : Bool :=
  match j with
  | .obj kvs => s.required.all (fun r => hasKey r kvs)
  | _ => true

/-- positional `items`: the i-th schema for the i-th element, elements beyond the list unconstrained
(draft-04 `additionalItems` defaults to allowed) -/
def allZip (rec : Schema → Json → Bool) : List Schema → List Json → Bool
  | t :: ts, x :: xs => rec t x && allZip rec ts xs
  | _, _ => true

def chkItems (rec : Schema → Json → Bool) (s : Schema) (j : Json) : Bool :=
  match j with
  | .arr xs =>
    (match s.items with | some it => xs.all (rec it) | none => true) &&
    (match s.itemsTuple with | some ts => allZip rec ts xs | none => true)
  | _ => true

def chkProp (rec : Schema → Json → Bool) (s : Schema) (kv : String × Json) : Bool :=
  match assoc kv.1 s.props with
  | some p => rec p kv.2
  | none => !s.addlForbidden && (match s.addlSchema with | some a => rec a kv.2 | none => true)

def chkProps (rec : Schema → Json → Bool) (s : Schema) (j : Json) : Bool :=
  match j with
  | .obj kvs => kvs.all (chkProp rec s)
  | _ => true

/-- one layer of validation; `rec` validates sub-instances / sub-schemas.  A `$ref` schema is
replaced by its target (draft-04: siblings of `$ref` are ignored); an unresolvable one rejects. -/
def validateStep (defs : List (String × Schema)) (rec : Schema → Json → Bool) (s : Schema) (j : Json) : Bool :=
  match s.ref with
  | some r => (match assoc r defs with | some d => rec d j | none => false)
  | none =>
    chkType s j && chkEnum s j && chkPattern s j && chkNum s j && chkArr s j && chkRequired s j &&
    s.allOf.all (fun a => rec a j) && (s.anyOf.isEmpty || s.anyOf.any (fun a => rec a j)) &&
    chkItems rec s j && chkProps rec s j

def validate (defs : List (String × Schema)) : Nat → Schema → Json → Bool
  | 0 => fun _ _ => false
  | n + 1 => validateStep defs (validate defs n)

/-! ### declared types -/

inductive DT where
  | int | float | str | bool
  deriving DecidableEq, Repr

inductive Ty where
  | any
  | bool
  | int (lo : Option Int)                       -- `int`, `ConstrainedInt(ge=lo)`
  | float (lo hi : Option Int)                  -- `float`, `ConstrainedFloat(ge, le)`
  | str
  | strPat (pat : String)                       -- `constr(regex=pat)`
  | lit (vals : List String)                    -- `Literal["…"]`
  | enumRef (name : String)                     -- a `str, Enum` class (exported under definitions)
  | list (t : Ty) (minItems : Option Nat) (unique : Bool)
  | tuple (ts : List Ty)                        -- `Tuple[t1, …, tn]`
  | dict (t : Ty)                               -- `Dict[str, t]`
  | array (dt : DT)                             -- `Array[dt]` (models/types.py)
  | model (name : String)                       -- a ProtoModel subclass (exported under definitions)
  | union (ts : List Ty)

structure Field where
  name : String
  alias : String
  ty : Ty
  required : Bool
  wrap : Bool        -- pydantic wraps a `$ref` in `allOf` when the field carries title/description/default

inductive Decl where
  | model (name : String) (fields : List Field) (extra : Bool)   -- extra: `Config.extra = "allow"`
  | enum (name : String) (vals : List String)

def Decl.name : Decl → String
  | .model n _ _ => n
  | .enum n _ => n

abbrev Env := List Decl

def lookupDecl (Δ : Env) (name : String) : Option Decl := Δ.find? (fun d => name = d.name)

def dtSchema : DT → Schema
  | .int => { type := some .number, multipleOf1 := true }      -- types.py:24-25
  | .float => { type := some .number }                           -- types.py:26-27
  | .str => { type := some .string }                             -- types.py:28-29
  | .bool => { type := some .boolean }                           -- types.py:30-31

def Ty.isAny : Ty → Bool
  | .any => true
  | _ => false

mutual
def schemaOf : Ty → Schema
  | .any => {}
  | .bool => { type := some .boolean }
  | .int lo => { type := some .integer, minimum := lo }
  | .float lo hi => { type := some .number, minimum := lo, maximum := hi }
  | .str => { type := some .string }
  | .strPat p => { type := some .string, pattern := some p }
  | .lit vals => { type := some .string, enum := some (vals.map Json.str) }
  | .enumRef e => { ref := some e }
  | .list t mn uq => { type := some .array, items := some (schemaOf t), minItems := mn, uniqueItems := uq }
  | .tuple ts => { type := some .array, minItems := some ts.length, maxItems := some ts.length,
                   itemsTuple := some (schemaOfList ts) }
  | .dict t => { type := some .object, addlSchema := if t.isAny then none else some (schemaOf t) }
  | .array dt => { type := some .array, items := some (dtSchema dt) }
  | .model m => { ref := some m }
  | .union ts => { anyOf := schemaOfList ts }
def schemaOfList : List Ty → List Schema
  | [] => []
  | t :: ts => schemaOf t :: schemaOfList ts
end

def fieldSchema (f : Field) : Schema :=
  if f.wrap then { allOf := [schemaOf f.ty] } else schemaOf f.ty

def declSchema : Decl → Schema
  | .model _ fields extra =>
    { type := some .object
      props := fields.map (fun f => (f.alias, fieldSchema f))
      required := (fields.filter (fun f => f.required)).map (fun f => f.alias)
      addlForbidden := !extra }
  | .enum _ vals => { type := some .string, enum := some (vals.map Json.str) }

/-- the `definitions` block: one entry per declaration -/
def defsOf (Δ : Env) : List (String × Schema) := Δ.map (fun d => (d.name, declSchema d))

/-! ### in-memory values and the emitted JSON -/

inductive Val where
  | null
  | bool (b : Bool)
  | int (i : Int)
  | num (q : Rat)
  | str (s : String)                            -- `str`, `str`-Enum members (emitted as their value)
  | list (xs : List Val)                        -- list / tuple
  | arr (shape : List Nat) (flat : List Val)    -- ndarray: shape and `ravel()`
  | dict (kvs : List (String × Val))            -- a raw dict (`Dict[str, …]`, `Any`)
  | obj (model : String) (fields : List (String × Val))   -- a model instance: `__dict__` in order
  | unset (v : Val)                             -- a field value whose key is not in `__fields_set__`
  deriving Inhabited

/-- `exclude_unset` / `exclude_none` (pydantic `_iter`): the entry is skipped -/
def dropped : Val → Bool
  | .unset _ => true
  | .null => true
  | _ => false

def aliasIn (fields : List Field) (k : String) : String :=
  match fields.find? (fun f => k = f.name) with
  | some f => f.alias
  | none => k

/-- key under which field `k` of model `m` is written (`by_alias=True`; only Molecule declares aliases,
and `Molecule.dict` forces `by_alias`, molecule.py:592-595) -/
def aliasOf (Δ : Env) (m k : String) : String :=
  match lookupDecl Δ m with
  | some (.model _ fields _) => aliasIn fields k
  | _ => k

mutual
def emit (Δ : Env) : Val → Json
  | .null => .null
  | .bool b => .bool b
  | .int i => .int i
  | .num q => .num q
  | .str s => .str s
  | .list xs => .arr (emitList Δ xs)
  | .arr shape flat => if shape.isEmpty then emitHead Δ flat else .arr (emitList Δ flat)
  | .dict kvs => .obj (emitKvs Δ kvs)
  | .obj m fs => .obj (emitFields Δ m fs)
  | .unset v => emit Δ v
def emitList (Δ : Env) : List Val → List Json
  | [] => []
  | x :: xs => emit Δ x :: emitList Δ xs
def emitHead (Δ : Env) : List Val → Json      -- `obj.tolist()` of a rank-0 array
  | [] => .null
  | x :: _ => emit Δ x
def emitKvs (Δ : Env) : List (String × Val) → List (String × Json)
  | [] => []
  | (k, v) :: t => (k, emit Δ v) :: emitKvs Δ t
def emitFields (Δ : Env) (m : String) : List (String × Val) → List (String × Json)
  | [] => []
  | (k, v) :: t => if dropped v then emitFields Δ m t else (aliasOf Δ m k, emit Δ v) :: emitFields Δ m t
end

/-! ### typing of in-memory values -/

def isDT : DT → Val → Bool
  | .int, .int _ => true
  | .float, .num _ => true
  | .float, .int _ => true
  | .str, .str _ => true
  | .bool, .bool _ => true
  | _, _ => false

def zipAll (rec : Val → Ty → Bool) : List Val → List Ty → Bool
  | x :: xs, t :: ts => rec x t && zipAll rec xs ts
  | [], [] => true
  | _, _ => false

/-- an entry `(k, v)` of a model instance: a non-dropped value is typed by the field that owns the
key it is written under (for distinct aliases: the field named `k`); a key owned by no field is an
extra attribute (`extra = "allow"` only) -/
def fieldOk (rec : Val → Ty → Bool) (fields : List Field) (extra : Bool) (kv : String × Val) : Bool :=
  dropped kv.2 ||
  match fields.find? (fun f => aliasIn fields kv.1 = f.alias) with
  | some f => rec kv.2 f.ty
  | none => extra

def requiredOk (fields : List Field) (fs : List (String × Val)) : Bool :=
  (fields.filter (fun f => f.required)).all (fun f =>
    fs.any (fun kv => !dropped kv.2 && aliasIn fields kv.1 == f.alias))

def hasTypeStep (Δ : Env) (rec : Val → Ty → Bool) (v : Val) (ty : Ty) : Bool :=
  match ty, v with
  | .any, _ => true
  | .bool, .bool _ => true
  | .int lo, .int i => optLe lo i
  | .float lo hi, .num q => optLeQ lo q && optGeQ hi q
  | .float lo hi, .int i => optLe lo i && optGe hi i
  | .str, .str _ => true
  | .strPat p, .str s => matchPat p s
  | .lit vals, .str s => vals.contains s
  | .enumRef e, .str s =>
    (match lookupDecl Δ e with
     | some (.enum _ vals) => vals.contains s
     | _ => false)
  | .list t mn uq, .list xs =>
    xs.all (fun x => rec x t) && optMinLen mn xs.length && (!uq || uniqueJ (emitList Δ xs))
  | .tuple ts, .list xs => zipAll rec xs ts
  | .dict t, .dict kvs => kvs.all (fun kv => rec kv.2 t)
  | .array dt, .arr shape flat => !shape.isEmpty && flat.all (isDT dt)
  | .model m, .obj m' fs =>
    m == m' &&
    (match lookupDecl Δ m with
     | some (.model _ fields extra) => fs.all (fieldOk rec fields extra) && requiredOk fields fs
     | _ => false)
  | .union ts, v => ts.any (fun t => rec v t)
  | _, _ => false

def hasType (Δ : Env) : Nat → Val → Ty → Bool
  | 0 => fun _ _ => false
  | n + 1 => hasTypeStep Δ (hasType Δ n)

/-! ### well-formedness of declarations and the tie to an exported schema (driver side) -/

def nodupS : List String → Bool
  | [] => true
  | x :: xs => !xs.contains x && nodupS xs

def Decl.wf : Decl → Bool
  | .model _ fields _ => nodupS (fields.map (·.name)) && nodupS (fields.map (·.alias))
  | .enum _ _ => true

def Env.wf (Δ : Env) : Bool := nodupS (Δ.map Decl.name) && Δ.all Decl.wf

end QcelVerif.Schema
