import QcelVerif.Model.Radii
import QcelVerif.Gen.UnitsCodata
/-
C17 — the unit factor of the radii lookups, DERIVED instead of taken from the implementation.

`Model/Radii.lean` takes `constants.conversion_factor(src, dst)` as a parameter (`conv`, `convF`).
This file instantiates that parameter with C03's SI model (`Model/Units.lean`, `Units.conv`) over
the CODATA set regenerated from `/repo` into `Gen/UnitsCodata.lean` (translator
`harness/c03.py:gen_units_codata`, called from C17's TRANSLATORS), for the five length units of the
property's quantifier {bohr, angstrom, pm, nm, m}:

  * `LUnit.expr`      — the unit expression pint reads the text as ("pm" = pico·meter, "nm" = nano·meter;
                        `ureg.py:54`: `bohr = <bohr radius> * meter`; pint `default_en.txt`: `angstrom = 1e-10 * meter`)
  * `factorQ cd s d`  — the EXACT factor `Units.conv cd s.expr d.expr` (a rational; never an error on these units)
  * `convModel cd`    — the double the model uses: `rnd64` of that rational (the correctly rounded factor)
  * `getFull`, `Datum.toUnitsFull` — `get` / `Datum.to_units` with that factor, nothing taken from the implementation
  * `withinTol`       — the stated tolerance between the implementation's double and the exact rational:
                        `|f − q| ≤ 2^-50·|q|` (4 units of the machine epsilon 2^-52; pint evaluates the factor
                        with a handful of float operations — e.g. ångström→nm comes out as 0.09999999999999999 —
                        and that float evaluation is NOT modelled: it stays a per-run checked parameter)
  * `Datum.runToUnits` — a Datum with its payload threaded as state through repeated `to_units` calls
                        (datum.py:96-105 has no assignment to `self`; Datum is frozen, datum.py:46-49)

Core Lean only (the driver imports this file).
-/
namespace QcelVerif.Radii
open QcelVerif QcelVerif.PStr QcelVerif.PT

/-- the five length units of the property's quantifier -/
inductive LUnit where
  | bohr | angstrom | pm | nm | m
  deriving DecidableEq, Repr

namespace LUnit

def all : List LUnit := [.bohr, .angstrom, .pm, .nm, .m]

/-- the unit expression (C03's AST: power-of-ten prefix, table unit) the text denotes -/
def expr : LUnit → Units.Expr
  | .bohr => .unit 0 .bohr
  | .angstrom => .unit 0 .angstrom
  | .pm => .unit (-12) .meter
  | .nm => .unit (-9) .meter
  | .m => .unit 0 .meter

/-- the text passed as `units=` / stored in `Datum.units`: "bohr", "angstrom", "pm", "nm", "m" -/
def name : LUnit → Bytes
  | .bohr => bBohr
  | .angstrom => bAngstrom
  | .pm => [112, 109]
  | .nm => [110, 109]
  | .m => [109]

def ofName (s : Bytes) : Option LUnit := all.find? (fun u => u.name == s)

end LUnit

/-- **the exact conversion factor** `conversion_factor(src, dst)` of C03's SI model under the CODATA set `cd` -/
def factorQ (cd : Units.Codata) (src dst : LUnit) : Except Units.Err Rat := Units.conv cd src.expr dst.expr

/-- the model's unit-factor map for `getU` / `Datum.toUnitsU`: the correctly rounded double of the exact
factor; `none` (pint would raise) for a unit text outside the quantifier -/
def convModel (cd : Units.Codata) (src dst : Bytes) : Option Rat :=
  match LUnit.ofName src, LUnit.ofName dst with
  | some s, some d =>
    match factorQ cd s d with
    | .ok q => some (rnd64 q)
    | .error _ => none
  | _, _ => none

/-- `CovalentRadii.get` / `VanderWaalsRadii.get` with the unit factor derived from the CODATA set -/
def getFull (cd : Units.Codata) (T : Tables) (t : Table) (a : PyVal) (returnTuple : Bool)
    (units : Option Bytes) (missing : Option Rat) : Except Err Out :=
  getU T t (convModel cd) a returnTuple units missing

/-- `Datum.to_units(units=None)` (datum.py:96-105): `to_unit = self.units if units is None else units`;
`convF` is `constants.conversion_factor` as a parameter -/
def Datum.toUnitsU (convF : Bytes → Bytes → Option Rat) (d : Datum) (units : Option Bytes) : Except Err Out :=
  d.toUnits (fun src => convF src (units.getD d.units))

/-- `Datum.to_units` with the derived factor -/
def Datum.toUnitsFull (cd : Units.Codata) (d : Datum) (units : Option Bytes) : Except Err Out :=
  d.toUnitsU (convModel cd) units

/-! ### the stated tolerance on the implementation's double -/

def qabs (x : Rat) : Rat := if x < 0 then -x else x

/-- `|f − q| ≤ 2^-50 · |q|` -/
def withinTol (f q : Rat) : Bool := decide (qabs (f - q) * (2 : Rat) ^ (50 : Nat) ≤ qabs q)

/-! ### repeated `to_units` calls on one Datum (the Datum threaded as state) -/

/-- one `to_units` call on a Datum: (the Datum afterwards, the reply).  `to_units` contains no assignment
to `self` or to `self.data`; the reply is a new value (`factor * float(self.data)` / `factor * self.data`). -/
def Datum.callToUnits (convF : Bytes → Bytes → Option Rat) (d : Datum) (units : Option Bytes) :
    Datum × Except Err Out :=
  (d, d.toUnitsU convF units)

/-- a sequence of `to_units` calls on the same Datum, in order -/
def Datum.runToUnits (convF : Bytes → Bytes → Option Rat) : Datum → List (Option Bytes) → Datum × List (Except Err Out)
  | d, [] => (d, [])
  | d, u :: us =>
    let s := d.callToUnits convF u
    let rest := Datum.runToUnits convF s.1 us
    (rest.1, s.2 :: rest.2)

end QcelVerif.Radii
