import QcelVerif.Model.Mill
/-!
# A small array-expression AST for `AlignmentMill` (models/align.py) and its evaluator

Core Lean only (the driver imports this file).  `harness/c13_src.py` reads
`qcelemental/models/align.py` with Python's `ast` on every run and emits one term of `Expr` per
method into `Gen/MillSrc.lean`; `Expr.eval` below gives every constructor the index-level numpy
semantics that `Model/Mill.lean` states for the same operation (the very same helper functions
`rowDot`, `matMul`, `transpose`, `takeRows`, `blockwiseExpand`, `blockwiseContract`, `idx`, `blk`,
`off` are used), and `Props/C13Src.lean` proves `eval genAST_<method> = Mill.<method>` for all sizes,
recipes and inputs.

The AST is *typed by array shape* (`Sh`): the translator infers shapes from the declared shapes of
the method arguments, and Lean's type checker re-checks every inferred shape when it elaborates the
generated file -- a wrong inference is a build failure, never a silent reinterpretation.

What a constructor stands for (numpy reading, all value-level; memory aliasing is outside):

* `argRows … rotation`           the method's argument of that shape / the recipe's fields
* `dotRM x R`, `dotVM v R`, `dotMM A B`   `x.dot(R)` / `np.dot(x, R)` for `(k,3)·(3,3)`, `(3,)·(3,3)`, `(3,3)·(3,3)`
* `transposeM A`                 `A.T`
* `addRow x v`, `subRow x v`     `x + v`, `x - v` with the `(3,)` vector broadcast over the rows
* `scaleCol c s x`               the array after `x[:, c] *= s` (`s` one of the literals 0, 1, -1)
* `ite c a b`                    the value of a variable after `if c: … else: …` (`c` = `self.mirror` / `reverse`)
* `takeRows x`, `takeAtoms a`    `x[self.atommap]`, `x[self.atommap, :]`
* `takeBlk0`, `takeBlk1`, `takeIx`   `x[self.atommap]`, `x[:, self.atommap]`, `x[np.ix_(self.atommap, self.atommap)]` on a 4-D blocked array
* `diag3 a b c`                  `np.diag([a, b, c])`
* `zerosLikeBlk x`               `np.zeros_like(x)`
* `expand33 h`, `contract b`     `blockwise_expand(h, (3, 3), False)`, `blockwise_contract(b)`
* `forBlocks tgt src body`       `nat = src.shape[0]; for i in range(nat): for j in range(nat): tgt[i, j] = body`
                                 where `body` may read `src[i, j]` (constructor `cur`) and loop-independent
                                 values but not `tgt`; `tgt` and `src` are `(k,k,3,3)`, so every entry of `tgt`
                                 is assigned exactly once and the result is the tabulation of `body`
* `forAtoms src r0 r1 r2`        `nat = len(src[0]) // 3; out = np.zeros((3, 3*nat)); for at in range(nat):
                                 out[a, 3*at:3*at+3] = r_a  (a = 0,1,2)` where `r_a` may read
                                 `src[a'][3*atommap[at] : 3*atommap[at]+3]` (constructor `curRow a'`); the loop index
                                 subscripts `atommap`, so the recipe must map as many atoms as `src` has
                                 (the generated term is instantiated at `m = n`, exactly like the hand model)
* `ofRows r0 r1 r2`              a `(3,3)` scratch array after `D[0,:] = r0; D[1,:] = r1; D[2,:] = r2`
* `rowOf a M`                    `M[a, :]`
-/
namespace QcelVerif.Mill

/-- array shapes that occur in align.py (the Cartesian axis is always 3) -/
inductive Sh where
  | vec3                       -- (3,)
  | mat3                       -- (3,3)
  | rows (k : Nat)             -- (k,3)
  | flat (k1 k2 : Nat)         -- (3*k1, 3*k2)
  | blk (k1 k2 : Nat)          -- (k1,k2,3,3)
  | mu (k : Nat)               -- (3, 3*k) / three (3k,) arrays
  | atoms (k : Nat)            -- (k,) of any dtype
  deriving Repr, DecidableEq

/-- the model's own array type for a shape -/
def Sh.den (K α : Type) : Sh → Type
  | .vec3 => Vec3 K
  | .mat3 => Mat3 K
  | .rows k => Geom K k
  | .flat a b => Fin (a * 3) → Fin (b * 3) → K
  | .blk a b => Fin a → Fin b → Mat3 K
  | .mu k => Fin 3 → Fin (k * 3) → K
  | .atoms k => Fin k → α

/-- scalar literals the translator accepts -/
inductive Lit where
  | zero | one | negOne
  deriving Repr, DecidableEq

/-- conditions the translator accepts -/
inductive Cond where
  | mirror      -- `self.mirror`
  | reverse     -- keyword argument `reverse`
  deriving Repr, DecidableEq

inductive Expr (n m : Nat) : Sh → Type where
  | argRows : Expr n m (.rows n)
  | argVec : Expr n m .vec3
  | argHess : Expr n m (.flat n n)
  | argMu : Expr n m (.mu n)
  | argAtoms : Expr n m (.atoms n)
  | shift : Expr n m .vec3
  | rotation : Expr n m .mat3
  | dotRM {k : Nat} : Expr n m (.rows k) → Expr n m .mat3 → Expr n m (.rows k)
  | dotVM : Expr n m .vec3 → Expr n m .mat3 → Expr n m .vec3
  | dotMM : Expr n m .mat3 → Expr n m .mat3 → Expr n m .mat3
  | transposeM : Expr n m .mat3 → Expr n m .mat3
  | addRow {k : Nat} : Expr n m (.rows k) → Expr n m .vec3 → Expr n m (.rows k)
  | subRow {k : Nat} : Expr n m (.rows k) → Expr n m .vec3 → Expr n m (.rows k)
  | scaleCol {k : Nat} (c : Fin 3) (s : Lit) : Expr n m (.rows k) → Expr n m (.rows k)
  | ite {s : Sh} (c : Cond) : Expr n m s → Expr n m s → Expr n m s
  | takeRows : Expr n m (.rows n) → Expr n m (.rows m)
  | takeAtoms : Expr n m (.atoms n) → Expr n m (.atoms m)
  | takeBlk0 {k2 : Nat} : Expr n m (.blk n k2) → Expr n m (.blk m k2)
  | takeBlk1 {k1 : Nat} : Expr n m (.blk k1 n) → Expr n m (.blk k1 m)
  | takeIx : Expr n m (.blk n n) → Expr n m (.blk m m)
  | diag3 (a b c : Lit) : Expr n m .mat3
  | zerosLikeBlk {a b : Nat} : Expr n m (.blk a b) → Expr n m (.blk a b)
  | expand33 {a b : Nat} : Expr n m (.flat a b) → Expr n m (.blk a b)
  | contract {a b : Nat} : Expr n m (.blk a b) → Expr n m (.flat a b)
  | forBlocks {k : Nat} (tgt src : Expr n m (.blk k k)) (body : Expr n m .mat3) : Expr n m (.blk k k)
  | cur : Expr n m .mat3
  | forAtoms (src : Expr n m (.mu n)) (r0 r1 r2 : Expr n m .vec3) : Expr n m (.mu m)
  | curRow (a : Fin 3) : Expr n m .vec3
  | ofRows (r0 r1 r2 : Expr n m .vec3) : Expr n m .mat3
  | rowOf (a : Fin 3) : Expr n m .mat3 → Expr n m .vec3

variable {K : Type} [Add K] [Sub K] [Mul K] [Neg K] [OfNat K 0] [OfNat K 1]

/-- what a method is called with: the recipe (`self`), the keyword `reverse`, and one slot per
argument shape (a method reads only the slots of its own arguments) -/
structure Env (K α : Type) (n m : Nat) where
  r : Recipe K n m
  reverse : Bool
  rows : Geom K n
  vec : Vec3 K
  hess : Hess K n
  mu : Fin 3 → Fin (n * 3) → K
  atoms : Fin n → α

def Lit.val : Lit → K
  | .zero => 0
  | .one => 1
  | .negOne => -1

def Cond.val {α : Type} {n m : Nat} (env : Env K α n m) : Cond → Bool
  | .mirror => env.r.mirror
  | .reverse => env.reverse

/-- selection by a Cartesian / component index -/
def pick3 {β : Type} (a : Fin 3) (x y z : β) : β :=
  if a = 0 then x else if a = 1 then y else z

/-- Evaluator.  `cur` is the 3×3 block the innermost enclosing loop is looking at
(`src[i, j]` in `forBlocks`, the rows `src[a][3*atommap[at] : 3*atommap[at]+3]` in `forAtoms`);
outside a loop it is never read by a translator-produced term. -/
def Expr.eval {α : Type} {n m : Nat} (env : Env K α n m) :
    {s : Sh} → (cb : Mat3 K) → Expr n m s → s.den K α
  | _, _, .argRows => env.rows
  | _, _, .argVec => env.vec
  | _, _, .argHess => env.hess
  | _, _, .argMu => env.mu
  | _, _, .argAtoms => env.atoms
  | _, _, .shift => env.r.shift
  | _, _, .rotation => env.r.rot
  | _, cb, .dotRM x R => fun i => rowDot (x.eval env cb i) (R.eval env cb)
  | _, cb, .dotVM v R => rowDot (v.eval env cb) (R.eval env cb)
  | _, cb, .dotMM A B => matMul (A.eval env cb) (B.eval env cb)
  | _, cb, .transposeM A => transpose (A.eval env cb)
  | _, cb, .addRow x v => fun i a => x.eval env cb i a + v.eval env cb a
  | _, cb, .subRow x v => fun i a => x.eval env cb i a - v.eval env cb a
  | _, cb, .scaleCol c s x => fun i a => if a = c then x.eval env cb i a * s.val else x.eval env cb i a
  | _, cb, .ite c a b => if c.val env then a.eval env cb else b.eval env cb
  | _, cb, .takeRows x => Mill.takeRows env.r.map (x.eval env cb)
  | _, cb, .takeAtoms x => Mill.takeRows env.r.map (x.eval env cb)
  | _, cb, .takeBlk0 x => fun i j => x.eval env cb (env.r.map i) j
  | _, cb, .takeBlk1 x => fun i j => x.eval env cb i (env.r.map j)
  | _, cb, .takeIx x => fun i j => x.eval env cb (env.r.map i) (env.r.map j)
  | _, _, .diag3 a b c => fun i j => if i = j then pick3 i a.val b.val c.val else 0
  | _, _, .zerosLikeBlk _ => fun _ _ _ _ => 0
  | _, cb, .expand33 x => blockwiseExpand (x.eval env cb)
  | _, cb, .contract x => blockwiseContract (x.eval env cb)
  | _, cb, .forBlocks _ src body => fun i j => body.eval env (src.eval env cb i j)
  | _, cb, .cur => cb
  | _, cb, .forAtoms src r0 r1 r2 => fun a c =>
      let blkAt : Mat3 K := fun a' b' => src.eval env cb a' (idx (env.r.map (blk c)) b')
      pick3 a (r0.eval env blkAt) (r1.eval env blkAt) (r2.eval env blkAt) (off c)
  | _, cb, .curRow a => fun b => cb a b
  | _, cb, .ofRows r0 r1 r2 => fun a b => pick3 a (r0.eval env cb) (r1.eval env cb) (r2.eval env cb) b
  | _, cb, .rowOf a M => fun b => M.eval env cb a b

/-- top-level evaluation of a method's AST (no enclosing loop) -/
def evalMill {α : Type} {n m : Nat} {s : Sh} (e : Expr n m s) (env : Env K α n m) : s.den K α :=
  e.eval env (fun _ _ => 0)

/-! ### `align_system` / `align_mini_system`: tuples of calls of other methods -/

/-- one component of the returned tuple: `self.align_coordinates(<arg>, reverse=reverse)` or
`self.align_atoms(<arg>)`, `arg` = position of the caller's argument that is passed on -/
inductive SysComp where
  | coords (arg : Nat) (reverseKw : Bool)   -- reverseKw: the caller's `reverse` is handed on as keyword
  | atoms (arg : Nat)
  deriving Repr, DecidableEq

/-! ## `qcelemental/util/np_blockwise.py`

`blockwise_expand` builds a strided view: its body only computes two integer vectors (the view's
shape and strides) from `a.shape`, `a.strides` and `blockshape` and hands them to
`np.lib.stride_tricks.as_strided`.  `blockwise_contract` is a chain of `reshape` / `swapaxes`.  The
two ASTs below keep exactly that, and the evaluators give `as_strided`, `reshape` and `swapaxes`
their index-level numpy meaning on the memory of a C-contiguous array (strides are counted in items;
numpy counts bytes, which multiplies the strides taken from `a.strides` and the step through memory by
the same item size). -/

/-- integer vectors of `blockwise_expand` (tuples / 1-D integer arrays) -/
inductive IVec where
  | shape                      -- `a.shape`
  | strides                    -- `a.strides`
  | block                      -- `blockshape`
  | floordiv (a b : IVec)      -- `np.array(a) // b`, elementwise
  | mul (a b : IVec)           -- `a * np.array(b)`, elementwise
  | concat (a b : IVec)        -- `tuple + tuple`
  deriving Repr, DecidableEq

def IVec.eval (shape strides block : List Nat) : IVec → List Nat
  | .shape => shape
  | .strides => strides
  | .block => block
  | .floordiv a b => List.zipWith (· / ·) (a.eval shape strides block) (b.eval shape strides block)
  | .mul a b => List.zipWith (· * ·) (a.eval shape strides block) (b.eval shape strides block)
  | .concat a b => a.eval shape strides block ++ b.eval shape strides block

/-- `blockwise_expand(a, blockshape, aslist=False, require_aligned_blocks=True)` as read from the
source: the two asserts and the arguments of `as_strided(a, shape=…, strides=…)` -/
structure ExpandAst where
  assertContiguous : Bool      -- `assert a.flags["C_CONTIGUOUS"]`
  assertAligned : Bool         -- `if require_aligned_blocks: assert (np.mod(a.shape, blockshape) == 0).all()`
  viewShape : IVec
  viewStrides : IVec
  deriving Repr, DecidableEq

/-- item `k` of the memory of a C-contiguous `(R,C)` array; `none` outside the buffer -/
def memRC {α : Type} {R C : Nat} (a : Fin R → Fin C → α) (k : Nat) : Option α :=
  if h : 0 < C ∧ k / C < R then some (a ⟨k / C, h.2⟩ ⟨k % C, Nat.mod_lt _ h.1⟩) else none

def dotNat : List Nat → List Nat → Nat
  | x :: xs, y :: ys => x * y + dotNat xs ys
  | _, _ => 0

/-- every index below its bound, same length -/
def allLt : List Nat → List Nat → Bool
  | [], [] => true
  | x :: xs, y :: ys => decide (x < y) && allLt xs ys
  | _, _ => false

/-- entry `ix` of the view `blockwise_expand(a, block)` returns for a C-contiguous 2-D `a`
(`none`: AssertionError, index outside the view, or a read outside the buffer) -/
def evalExpand {α : Type} {R C : Nat} (e : ExpandAst) (a : Fin R → Fin C → α) (block ix : List Nat) :
    Option α :=
  let shape := [R, C]
  let strides := [C, 1]
  if block.length ≠ 2 then none
  else if e.assertAligned && !((List.zipWith (· % ·) shape block).all (· == 0)) then none
  else
    let vs := e.viewShape.eval shape strides block
    let st := e.viewStrides.eval shape strides block
    if allLt ix vs && vs.length == st.length then memRC a (dotNat ix st) else none

/-- dimension expressions of `blockwise_contract` -/
inductive DimE where
  | inShape (k : Nat)          -- `gr, gc, lr, lc = arr.shape`: entry `k`
  | argShape (k : Nat)         -- `n, nrows, ncols = arr.shape` inside the helper: entry `k`
  | mul (a b : DimE)
  | floordiv (a b : DimE)
  | neg1                       -- `-1` (inferred by reshape)
  deriving Repr, DecidableEq

inductive ViewOp where
  | reshape (dims : List DimE)   -- `np.reshape(x, dims)` / `x.reshape(*dims)` (C order)
  | swapaxes12                   -- `x.swapaxes(1, 2)` of a 4-D array
  deriving Repr, DecidableEq

/-- `blockwise_contract(arr)`: the view operations before the helper `unblockshaped` is entered and
those inside it -/
structure ContractAst where
  inRank : Nat                 -- length of the unpacking `gr, gc, lr, lc = arr.shape`
  outer : List ViewOp
  argRank : Nat                -- length of the unpacking `n, nrows, ncols = arr.shape`
  inner : List ViewOp
  deriving Repr, DecidableEq

def DimE.eval (ins args : List Nat) : DimE → Nat
  | .inShape k => ins.getD k 0
  | .argShape k => args.getD k 0
  | .mul a b => a.eval ins args * b.eval ins args
  | .floordiv a b => a.eval ins args / b.eval ins args
  | .neg1 => 0

def prodNat : List Nat → Nat
  | [] => 1
  | x :: xs => x * prodNat xs

/-- product of the dimensions that are not `-1` -/
def knownProd (ins args : List Nat) : List DimE → Nat
  | [] => 1
  | d :: ds => (if d = .neg1 then 1 else d.eval ins args) * knownProd ins args ds

def countNeg1 : List DimE → Nat
  | [] => 0
  | d :: ds => (if d = .neg1 then 1 else 0) + countNeg1 ds

/-- a C-ordered array as (shape, flat memory) -/
abbrev FlatArr (α : Type) := List Nat × (Nat → Option α)

/-- numpy `reshape`: same flat data, new shape; one `-1` is inferred; ValueError (`none`) if the sizes
do not match or `-1` cannot be inferred (the known dimensions multiply to 0) -/
def reshapeArr {α : Type} (ins args : List Nat) (dims : List DimE) (x : FlatArr α) : Option (FlatArr α) :=
  let total := prodNat x.1
  let known := knownProd ins args dims
  if countNeg1 dims > 1 then none
  else if countNeg1 dims = 1 ∧ known = 0 then none
  else
    let nd := dims.map fun d => if d = .neg1 then total / known else d.eval ins args
    if prodNat nd = total then some (nd, x.2) else none

/-- numpy `swapaxes(1, 2)` of a 4-D C-ordered array `(d0,d1,d2,d3)`: the result has shape
`(d0,d2,d1,d3)` and `res[a,c,b,e] = x[a,b,c,e]` -/
def swapArr {α : Type} (x : FlatArr α) : Option (FlatArr α) :=
  match x.1 with
  | [d0, d1, d2, d3] =>
    some ([d0, d2, d1, d3], fun k =>
      let e := k % d3
      let b := (k / d3) % d1
      let c := (k / d3 / d1) % d2
      let a := k / d3 / d1 / d2
      x.2 (((a * d1 + b) * d2 + c) * d3 + e))
  | _ => none

def ViewOp.apply {α : Type} (ins args : List Nat) : ViewOp → FlatArr α → Option (FlatArr α)
  | .reshape dims, x => reshapeArr ins args dims x
  | .swapaxes12, x => swapArr x

def applyOps {α : Type} (ins args : List Nat) : List ViewOp → FlatArr α → Option (FlatArr α)
  | [], x => some x
  | op :: ops, x => (op.apply ins args x).bind (applyOps ins args ops)

/-- flat memory of a C-ordered `(gr,gc,lr,lc)` array -/
def flat4 {α : Type} {gr gc lr lc : Nat} (b : Fin gr → Fin gc → Fin lr → Fin lc → α) (k : Nat) : Option α :=
  if h : 0 < lc ∧ 0 < lr ∧ 0 < gc ∧ k / lc / lr / gc < gr then
    some (b ⟨k / lc / lr / gc, h.2.2.2⟩ ⟨k / lc / lr % gc, Nat.mod_lt _ h.2.2.1⟩
      ⟨k / lc % lr, Nat.mod_lt _ h.2.1⟩ ⟨k % lc, Nat.mod_lt _ h.1⟩)
  else none

/-- `blockwise_contract(b)` as read from the source, on a `(gr,gc,lr,lc)` array: the resulting
C-ordered array (`none`: a numpy ValueError on the way) -/
def evalContract {α : Type} {gr gc lr lc : Nat} (e : ContractAst)
    (b : Fin gr → Fin gc → Fin lr → Fin lc → α) : Option (FlatArr α) :=
  let ins := [gr, gc, lr, lc]
  if e.inRank ≠ 4 then none
  else
    (applyOps ins [] e.outer (ins, flat4 b)).bind fun x =>
      if x.1.length ≠ e.argRank then none else applyOps ins x.1 e.inner x

/-- entry `[r, c]` of a 2-D C-ordered array -/
def FlatArr.get2 {α : Type} (x : FlatArr α) (r c : Nat) : Option α :=
  match x.1 with
  | [h, w] => if r < h ∧ c < w then x.2 (r * w + c) else none
  | _ => none

end QcelVerif.Mill
