import QcelVerif.Model.ChgMultAst
import QcelVerif.Gen.ChgMultSrc
/-!
The source-derived decision procedure of C05: `validate_and_fill_chgmult` with the rule lambdas and the candidate
ranges as regenerated from `chgmult.py` on every run (`Gen/ChgMultSrc.lean`), run by the evaluator of
`Model/ChgMultAst.lean`.  Core Lean only.  `Props/C05Src.lean` proves `vfcSrc = vfc`.
-/
namespace QcelVerif.ChgMult

def vfcSrc (i : Inp) : Except Err Out :=
  Ast.vfcWith QcelVerif.Gen.ChgMultSrc.genRules QcelVerif.Gen.ChgMultSrc.genDims i

/-- the same with the rule list assessed lazily (`Props/C05Src.lean` proves `vfcSrcLazy = vfc` as well) -/
def vfcSrcLazy (i : Inp) : Except Err Out :=
  Ast.vfcWithLazy QcelVerif.Gen.ChgMultSrc.genRules QcelVerif.Gen.ChgMultSrc.genDims i

end QcelVerif.ChgMult
