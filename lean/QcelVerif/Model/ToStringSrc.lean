import QcelVerif.Model.ToString
/-!
# C08 — a table-driven `to_string`: the shapes `harness/c08_spec.py` reads out of `to_string.py`

`Gen/ToStringSpec.lean` (rewritten from the working tree on every run) describes every branch of the
`if dtype in [...] / elif dtype == ...` chain as DATA of the types below: the `umap` dictionary and how it is read,
the list `smol` as a *line program* (literal text, holes filled from the molecule, conditions, where the atom block
goes, the fragment loop, the molpro dummy card, the SDF layouts), `data.fields`, `data.keywords`, and the
factor-selection chain.  This file gives the data its meaning (`renderBy`): an interpreter that follows Python's
semantics of the recognised shapes.  `Props/C08Spec.lean` proves the hand model `render` EQUAL to `renderBy` at the
generated tables, for every molecule and option set.

Core Lean only.
-/
namespace QcelVerif.ToString.Src
open QcelVerif.FixedFmt (Str)
open QcelVerif.ToString

/-! ### the shapes -/

/-- right-hand sides of `factor = …` (to_string.py:98-110) -/
inductive FactorExpr where
  | one                          -- `1.0`
  | pinned                       -- `molrec["input_units_to_au"]`
  | invB2A                       -- `1.0 / constants.bohr2angstroms`
  | b2a                          -- `constants.bohr2angstroms`
  | conv                         -- `constants.conversion_factor(molrec["units"], units)`
  | ifPinned (a b : FactorExpr)  -- `if "input_units_to_au" in molrec: a else: b`
  deriving DecidableEq, Repr

/-- tests a line / keyword is written under -/
inductive Cond where
  | always
  | fixOrientOrCom               -- `molrec["fix_orientation"] or molrec["fix_com"]`
  | fixCom | fixOrient
  | hasGhost                     -- `False in molrec["real"]`
  | symAbsent                    -- `"fix_symmetry" not in molrec.keys()`
  | symTruthy                    -- `if fix_symm:` with `fix_symm = molrec.get("fix_symmetry", None)`
  | symEq (s : String)           -- `"fix_symmetry" in molrec.keys() and molrec["fix_symmetry"] == s`
  | multNe (k : Int)             -- `molrec["molecular_multiplicity"] != k`
  | symStripUpperNe (dflt s : String)   -- `molrec.get("fix_symmetry", dflt).strip().upper() != s`
  deriving DecidableEq, Repr

/-- values placed into a text line -/
inductive Hole where
  | chgInt                       -- `int(molrec["molecular_charge"])`
  | chgFloat                     -- `molrec["molecular_charge"]` (a float; integer-charge scope: `str` gives `c.0`)
  | mult                         -- `molrec["molecular_multiplicity"]`
  | multM1                       -- `molrec["molecular_multiplicity"] - 1`
  | name | tagline
  | nat                          -- `len(atoms)`
  | unit                         -- the word read from `umap` (how: `Branch.access`)
  | fixCom                       -- `molrec["fix_com"]` printed as a bool
  | fixSym                       -- `molrec.get("fix_symmetry", None)` (only written when truthy)
  | fixSymStripOr (dflt : String)  -- `molrec.get("fix_symmetry", dflt).strip()`
  | fragChg | fragMult           -- `int(molrec["fragment_charges"][ifr])`, `molrec["fragment_multiplicities"][ifr]`
  deriving DecidableEq, Repr

inductive Seg where
  | lit (s : String)
  | hole (h : Hole)
  | optLit (c : Cond) (s : String)     -- present only when `c` holds
  | optHole (c : Cond) (h : Hole)
  deriving DecidableEq, Repr

/-- one step of building `smol` -/
inductive Item where
  | line (c : Cond) (rstrip : Bool) (segs : List Seg)
  | atoms                        -- `smol.extend(atoms)`
  | atomsLower                   -- the same after `atoms = [at.lower() for at in atoms]`
  | frags (sep : String) (segs : List Seg)   -- the `np.split` loop: `[sep, header]` per block when there is more than one
  | dummy (c : Cond) (pre sep : String)      -- `pre + sep.join([str(idx + 1) for idx, real in enumerate(real) if not real])`
  | sdfCounts | sdfBonds
  deriving DecidableEq, Repr

inductive KwExpr where
  | chgInt | mult | multM1
  | unitGet                      -- `umap.get(units.lower())`
  | unitIdx                      -- `umap[units.lower()]`
  | fixCom | fixOrientOrCom
  | str (s : String) | bool (b : Bool)
  | coords (sep : String)        -- `sep.join(atoms)`
  deriving DecidableEq, Repr

structure Kw where
  c : Cond
  key : String
  val : KwExpr
  deriving DecidableEq, Repr

/-- how a branch reads `umap` -/
inductive Access where
  | none                         -- no `umap` at all
  | getSelf                      -- `umap.get(u, u)`
  | get                          -- `umap.get(u)`
  | idx                          -- `umap[u]`
  | fixed (unit exc : String)    -- `if units.capitalize() != unit: raise exc(...)`
  deriving DecidableEq, Repr

structure Branch where
  name : String
  umap : List (String × String)
  access : Access
  unitWritten : Bool             -- the word reaches the text or the keywords (turbomole only looks it up)
  items : List Item
  fieldsExt : List String
  kws : List Kw
  deriving DecidableEq, Repr

instance : Inhabited Branch := ⟨⟨"", [], .none, false, [], [], []⟩⟩

/-- the SDF line layouts (to_string.py:379-386) -/
structure SdfSpec where
  cntW1 : Nat
  cntSep : String
  cntW2 : Nat
  cntTail : String
  coordW : Nat
  coordPrec : Nat
  symW : Nat
  atomTail : String
  bondPre : String
  bondW1 : Nat
  bondSep1 : String
  bondW2 : Nat
  bondSep2 : String
  bondW3 : Nat
  bondTail : String
  deriving DecidableEq, Repr

/-! ### their meaning -/

/-- `str.capitalize()` on ASCII -/
def capitalize : Str → Str
  | [] => []
  | c :: t => upperC c :: lower t

/-- `molrec["units"]` -/
def storedName : SUnit → Str
  | .bohr => lit "Bohr"
  | .angstrom => lit "Angstrom"

def FactorExpr.eval (s : SUnit) (t : TUnit) (pinned : Bool) : FactorExpr → Factor
  | .one => .one
  | .pinned => .pinned
  | .invB2A => .invB2A
  | .b2a => .b2a
  | .conv => .conv s t
  | .ifPinned a b => if pinned then a.eval s t pinned else b.eval s t pinned

/-- the if/elif chain on `(molrec["units"], units.capitalize())`, first match wins, `else` otherwise -/
def selectFactorBy (rows : List (String × String × FactorExpr)) (els : FactorExpr) (s : SUnit) (t : TUnit) (pinned : Bool) : Factor :=
  match rows.find? (fun r => lit r.1 == storedName s && lit r.2.1 == capitalize (unitLower t)) with
  | some r => r.2.2.eval s t pinned
  | none => els.eval s t pinned

def errOfName (s : String) : Err :=
  if s = "KeyError" then .keyError else if s = "ValueError" then .valueError
  else if s = "IndexError" then .indexError else .unsupported

/-- `umap.get(units.lower())` -/
def umapGet (b : Branch) (t : TUnit) : Option Str :=
  (b.umap.find? (fun p => lit p.1 == unitLower t)).map (fun p => lit p.2)

/-- the unit word a branch obtains, or the error it raises -/
def unitWordBy (b : Branch) (t : TUnit) : Except Err UnitWord :=
  match b.access with
  | .none => .ok .silent
  | .getSelf => .ok (.word ((umapGet b t).getD (unitLower t)))
  | .get => .ok (match umapGet b t with | some w => .word w | none => .pyNone)
  | .idx =>
      match umapGet b t with
      | some w => .ok (if b.unitWritten then .word w else .silent)
      | none => .error .keyError
  | .fixed u exc => if capitalize (unitLower t) = lit u then .ok .silent else .error (errOfName exc)

structure Env where
  m : Mol
  uw : UnitWord
  n : Nat            -- `len(atoms)`
  tag : String       -- the tagline literal
  fc : Int := 0      -- inside the fragment loop: this fragment's charge / multiplicity
  fm : Int := 0

def Cond.eval (m : Mol) : Cond → Bool
  | .always => true
  | .fixOrientOrCom => m.fixOrient || m.fixCom
  | .fixCom => m.fixCom
  | .fixOrient => m.fixOrient
  | .hasGhost => m.atoms.any (fun a => !a.real)
  | .symAbsent => m.fixSymm.isNone
  | .symTruthy => match m.fixSymm with | some s => !s.isEmpty | none => false
  | .symEq s => decide (m.fixSymm = some (lit s))
  | .multNe k => decide (m.mult ≠ k)
  | .symStripUpperNe dflt s => decide (upper (strip (m.fixSymm.getD (lit dflt))) ≠ lit s)

def Hole.eval (e : Env) : Hole → Str
  | .chgInt => intStr e.m.charge
  | .chgFloat => intStr e.m.charge ++ lit ".0"
  | .mult => intStr e.m.mult
  | .multM1 => intStr (e.m.mult - 1)
  | .name => e.m.nameOr
  | .tagline => lit e.tag ++ e.m.nameOr
  | .nat => natStr e.n
  | .unit => e.uw.text
  | .fixCom => boolStr e.m.fixCom
  | .fixSym => e.m.fixSymm.getD []
  | .fixSymStripOr d => strip (e.m.fixSymm.getD (lit d))
  | .fragChg => intStr e.fc
  | .fragMult => intStr e.fm

def Seg.eval (e : Env) : Seg → Str
  | .lit s => ToString.lit s
  | .hole h => h.eval e
  | .optLit c s => if c.eval e.m then ToString.lit s else []
  | .optHole c h => if c.eval e.m then h.eval e else []

def segsText (e : Env) (l : List Seg) : Str := (l.map (Seg.eval e)).flatten

/-- the fragment loop with its two literals as parameters -/
def fragLoopBy (sep : Str) (hdr : Int → Int → Str) (multi : Bool) : List (List Str) → List Int → List Int → Except Err (List Str)
  | [], _, _ => .ok []
  | b :: bs, fc, fm =>
    if multi then
      match fc, fm with
      | c :: fc', m :: fm' =>
        match fragLoopBy sep hdr multi bs fc' fm' with
        | .ok r => .ok (sep :: hdr c m :: b ++ r)
        | .error e => .error e
      | _, _ => .error .indexError
    else
      match fragLoopBy sep hdr multi bs fc.tail fm.tail with
      | .ok r => .ok (b ++ r)
      | .error e => .error e

/-- the output of the (first) fragment loop of a line program; `[]` when it has none -/
def fragOf (e : Env) (atoms : List Str) : List Item → Except Err (List Str)
  | [] => .ok []
  | .frags sep segs :: _ =>
      let blocks := npSplit atoms 0 e.m.seps
      fragLoopBy (lit sep) (fun c mm => segsText { e with fc := c, fm := mm } segs) (decide (1 < blocks.length)) blocks
        e.m.fcharges e.m.fmults
  | _ :: t => fragOf e atoms t

def sdfBondLineBy (s : SdfSpec) (b : Nat × Nat × Nat) : Str :=
  lit s.bondPre ++ padLeft s.bondW1 (natStr (b.1 + 1)) ++ lit s.bondSep1 ++ padLeft s.bondW2 (natStr (b.2.1 + 1)) ++ lit s.bondSep2 ++
    padLeft s.bondW3 (natStr b.2.2) ++ lit s.bondTail

def sdfAtomLineBy (s : SdfSpec) (gf : Str) (a : Atom) : Str :=
  (a.xyz.map (padLeft s.coordW)).flatten ++ padLeft s.symW (if a.real then a.elem else gf) ++ lit s.atomTail

def Item.eval (e : Env) (atoms frag : List Str) (s : SdfSpec) : Item → List Str
  | .line c rs segs => if c.eval e.m then [if rs then rstrip (segsText e segs) else segsText e segs] else []
  | .atoms => atoms
  | .atomsLower => atoms.map lower
  | .frags _ _ => frag
  | .dummy c pre sep => if c.eval e.m then [lit pre ++ joinWith (lit sep) ((ghostIndices 0 e.m.atoms).map natStr)] else []
  | .sdfCounts => [padLeft s.cntW1 (natStr e.m.atoms.length) ++ lit s.cntSep ++ padLeft s.cntW2 (natStr e.m.bonds.length) ++ lit s.cntTail]
  | .sdfBonds => e.m.bonds.map (sdfBondLineBy s)

def linesBy (e : Env) (atoms frag : List Str) (s : SdfSpec) (items : List Item) : List Str :=
  (items.map (Item.eval e atoms frag s)).flatten

def KwExpr.eval (e : Env) (atoms : List Str) : KwExpr → KwVal
  | .chgInt => .int e.m.charge
  | .mult => .int e.m.mult
  | .multM1 => .int (e.m.mult - 1)
  | .unitGet => uwKw e.uw
  | .unitIdx => .str e.uw.text
  | .fixCom => .bool e.m.fixCom
  | .fixOrientOrCom => .bool (e.m.fixOrient || e.m.fixCom)
  | .str s => .str (lit s)
  | .bool b => .bool b
  | .coords sep => .str (joinWith (lit sep) atoms)

def kwsBy (e : Env) (atoms : List Str) (kws : List Kw) : List (Str × KwVal) :=
  kws.filterMap fun k => if k.c.eval e.m then some (lit k.key, k.val.eval e atoms) else none

/-- dtype names as the source spells them -/
def dtypeOfName (s : String) : Option Dtype :=
  if s = "xyz" then some .xyz else if s = "xyz+" then some .xyzp else if s = "cfour" then some .cfour
  else if s = "gamess" then some .gamess else if s = "molpro" then some .molpro else if s = "nwchem" then some .nwchem
  else if s = "orca" then some .orca else if s = "psi4" then some .psi4 else if s = "qchem" then some .qchem
  else if s = "terachem" then some .terachem else if s = "turbomole" then some .turbomole
  else if s = "madness" then some .madness else if s = "mrchem" then some .mrchem
  else if s = "nglview-sdf" then some .sdf else none

/-- `dtype = dtype.lower()` (to_string.py:73), then the chain's string tests -/
def dtypeOfRaw (s : Str) : Option Dtype := dtypeOfName (String.ofList (lower s))

/-- the caller's `units=` string as the source reads it: the factor chain tests `units.capitalize()`, the `umap`s are
keyed by `units.lower()`; both readings must name the same unit (anything else is outside the model: `none`).
`nm` / `pm` go to `constants.conversion_factor(molrec["units"], units)` as written. -/
def reqOfRaw (u : Str) : Option Req :=
  if capitalize u = lit "Angstrom" then (if lower u = lit "angstrom" then some .angstrom else none)
  else if capitalize u = lit "Bohr" then (if lower u = lit "bohr" then some .bohr else none)
  else if u = lit "nm" then some .nm
  else if u = lit "pm" then some .pm
  else none

def branchOf (tbl : List Branch) (d : Dtype) : Option Branch :=
  tbl.find? (fun b => dtypeOfName b.name == some d)

/-- the atom lines: `_atoms_formatter` with the branch's formats (tied by `ConstTieC08.formats_match_source`), or the
SDF branch's own loop with the generated layout -/
def atomBlockBy (s : SdfSpec) (o : Opts) (m : Mol) : Except Err (List Str) :=
  match o.dtype with
  | .sdf => .ok (m.atoms.map (sdfAtomLineBy s (formats o).2.1))
  | _ => atomsFormatter (formats o).1 (formats o).2.1 o.width (formats o).2.2 m.atoms

/-- `to_string(..., return_data=True)` driven by the tables read from the source -/
def renderBy (tbl : List Branch) (s : SdfSpec) (tag : String) (base : List String) (o : Opts) (m : Mol) : Except Err Out :=
  match branchOf tbl o.dtype with
  | none => .error .keyError                         -- `raise KeyError(f"dtype '{dtype}' not understood.")`
  | some b => do
    let atoms ← atomBlockBy s o m
    let frag ← fragOf ⟨m, .silent, atoms.length, tag, 0, 0⟩ atoms b.items
    let uw ← unitWordBy b (resolve o.dtype o.req)
    let e : Env := ⟨m, uw, atoms.length, tag, 0, 0⟩
    pure ⟨linesBy e atoms frag s b.items, (base ++ b.fieldsExt).map lit, kwsBy e atoms b.kws⟩

/-! ### where charge and multiplicity are stated (read off the tables) -/

inductive Slot where
  | text (pre : String) (h : Hole)        -- in a text line, after the literal `pre` (`""` when the hole opens the line)
  | kw (key : String) (c : Cond) (v : KwExpr)
  deriving DecidableEq, Repr

def Hole.isChgMult : Hole → Bool
  | .chgInt | .chgFloat | .mult | .multM1 => true
  | _ => false

def KwExpr.isChgMult : KwExpr → Bool
  | .chgInt | .mult | .multM1 => true
  | _ => false

/-- the charge/multiplicity holes of one line, each with the literal just before it -/
def segSlots : String → List Seg → List Slot
  | _, [] => []
  | _, .lit s :: t => segSlots s t
  | pre, .hole h :: t => (if h.isChgMult then [Slot.text pre h] else []) ++ segSlots "" t
  | _, _ :: t => segSlots "" t

def Item.slots : Item → List Slot
  | .line _ _ segs => segSlots "" segs
  | _ => []

/-- every place a branch states the total charge / multiplicity -/
def Branch.slots (b : Branch) : List Slot :=
  (b.items.map Item.slots).flatten ++
    b.kws.filterMap fun k => if k.val.isChgMult then some (Slot.kw k.key k.c k.val) else none

/-! ### Python format specs of `_atoms_formatter` -/

inductive Align where | left | right | dflt
  deriving DecidableEq, Repr

/-- `{:<align><{width-name}>[.{prec-name}]<type>}` with nested replacement fields for width and precision -/
structure FmtSpec where
  align : Align
  width : String            -- name of the nested width field
  prec : Option String      -- name of the nested precision field
  ty : Option Char
  deriving DecidableEq, Repr

def takeName : List Char → List Char × List Char
  | [] => ([], [])
  | c :: t => if c == '}' then ([], c :: t) else (c :: (takeName t).1, (takeName t).2)

/-- parse a whole format string consisting of one replacement field `{:spec}` -/
def parseSpec (s : String) : Option FmtSpec :=
  match s.toList with
  | '{' :: ':' :: r =>
    let (al, r) := match r with
      | '>' :: r => (Align.right, r)
      | '<' :: r => (Align.left, r)
      | r => (Align.dflt, r)
    match r with
    | '{' :: r =>
      let (w, r) := takeName r
      match r with
      | '}' :: '.' :: '{' :: r =>
        let (p, r) := takeName r
        match r with
        | ['}', ty, '}'] => some ⟨al, String.ofList w, some (String.ofList p), some ty⟩
        | _ => none
      | ['}', '}'] => some ⟨al, String.ofList w, none, none⟩
      | _ => none
    | _ => none
  | _ => none

end QcelVerif.ToString.Src
