/-
C03 — unit conversion factors.  Core Lean only (the driver imports this file).

Two models live here.

* **The SI model (the specification).**  `Dim` (exponent vectors over the seven SI base
  dimensions), a hand-written unit table `Base ↦ (baseMag cd, baseDim)` whose magnitudes are
  built from the CODATA constants of the selected set (`Codata`, generated on every run from
  `/repo`'s data files into `Gen/UnitsCodata.lean`), the unit-expression AST `Expr`
  (numeric prefactor, prefixed unit, product, quotient, integer power), `mag`, `dim` and
  `conv a b = mag a / mag b` when the dimensions agree, else an error.

* **The model of the code that exists** (`convImpl`), following
  `qcelemental/physical_constants/context.py:278-331` (`conversion_factor`: parse both strings,
  peel the numeric magnitudes off, `ureg.convert(factor, src, dst)`),
  pint's insertion-ordered `UnitsContainer` arithmetic (`pint/util.py` `__mul__/__truediv__/__pow__`),
  pint's context conversion (`facets/context/registry.py:_convert`: shortest path in the graph of
  enabled transformations, apply the transformers in turn, then a plain same-dimension conversion), and
  the transformers of `ureg.py:131-193` (`_find_nist_unit` choosing a NIST `<a>_to_<b>` relationship from
  the *name* of a factor of the source quantity, else a fallback; `N_A` for per-mole).

pint's identifier resolution (`<prefix><unit>`) is modelled structurally: a prefixed unit is a pair
(power of ten, base unit); the name test `any(x in name for x in _nist_units)` becomes `selOfKey`
(the canonical name of a table unit contains a NIST unit name exactly when its base *is* one of the eight
NIST units, or it is kilo+gram; the relationship units `a_to_b` contain two).  That the strings behave
like this is checked differentially for every prefix on every table unit (harness/c03.py).
-/
namespace QcelVerif.Units

/-! ## dimensions -/

structure Dim where
  L : Int
  M : Int
  T : Int
  I : Int
  Th : Int
  N : Int
  J : Int
  deriving DecidableEq, Repr

namespace Dim
def zero : Dim := ⟨0, 0, 0, 0, 0, 0, 0⟩
def add (a b : Dim) : Dim := ⟨a.L + b.L, a.M + b.M, a.T + b.T, a.I + b.I, a.Th + b.Th, a.N + b.N, a.J + b.J⟩
def sub (a b : Dim) : Dim := ⟨a.L - b.L, a.M - b.M, a.T - b.T, a.I - b.I, a.Th - b.Th, a.N - b.N, a.J - b.J⟩
def smul (n : Int) (a : Dim) : Dim := ⟨n * a.L, n * a.M, n * a.T, n * a.I, n * a.Th, n * a.N, n * a.J⟩
instance : Add Dim := ⟨add⟩
instance : Sub Dim := ⟨sub⟩

def length : Dim := ⟨1, 0, 0, 0, 0, 0, 0⟩
def mass : Dim := ⟨0, 1, 0, 0, 0, 0, 0⟩
def time : Dim := ⟨0, 0, 1, 0, 0, 0, 0⟩
def current : Dim := ⟨0, 0, 0, 1, 0, 0, 0⟩
def temperature : Dim := ⟨0, 0, 0, 0, 1, 0, 0⟩
def substance : Dim := ⟨0, 0, 0, 0, 0, 1, 0⟩
def frequency : Dim := smul (-1) time
def invLength : Dim := smul (-1) length
def force : Dim := mass + length - smul 2 time
def energy : Dim := force + length
def energyPerMol : Dim := energy - substance
def pressure : Dim := force - smul 2 length
def charge : Dim := current + time
def volt : Dim := energy - charge
def tesla : Dim := volt + time - smul 2 length
def farad : Dim := charge - volt
def power : Dim := energy - time
end Dim

/-! ## CODATA constants of one set (values come from the translator) -/

/-- the eight units NIST publishes energy-equivalent relationships between (`ureg.py:96-108`, `_nist_units`) -/
inductive NistU
  | invm | amu | ev | hartree | hertz | joule | kelvin | kg
  deriving DecidableEq, Repr

/-- the nineteen `au_*` units of `ureg.py:58-85` -/
inductive AuU
  | hyper1 | hyper2 | action | chargeDensity | current | dipole | efield | efg | polarizability
  | potential | quadrupole | force | magDipole | magFlux | magnetizability | momentum | permittivity
  | time | velocity
  deriving DecidableEq, Repr

structure Codata where
  NA : Rat      -- "avogadro constant"
  kB : Rat      -- "boltzmann constant"
  c : Rat       -- "speed of light in vacuum"
  h : Rat       -- "planck constant"
  Eh : Rat      -- "hartree energy"
  eV : Rat      -- "electron volt-joule relationship"
  me : Rat      -- "electron mass"
  mu : Rat      -- "atomic mass constant"
  e : Rat       -- "elementary charge"
  a0 : Rat      -- "bohr radius"
  au : AuU → Rat          -- "atomic unit of …"
  rel : NistU → NistU → Rat   -- "<a>-<b> relationship" (diagonal unused)

/-! ## the unit table -/

inductive Base
  | meter | angstrom | angstromCap | bohr | inch | foot | yard | mile
  | gram | amu | emass
  | second | minute | hour
  | ampere | kelvin | rankine | mole
  | coulomb | echarge | statC
  | joule | calorie | eV | hartree | erg
  | hertz | wavenumber
  | debye | newton | dyne
  | pascal | bar | atm | torr
  | volt | tesla | farad | watt
  | au (u : AuU) | auPressure
  deriving DecidableEq, Repr

/-- natural power, by recursion (kept independent of any library `Pow` instance) -/
def npw (x : Rat) : Nat → Rat
  | 0 => 1
  | k + 1 => npw x k * x

/-- integer power -/
def zpw (x : Rat) : Int → Rat
  | .ofNat k => npw x k
  | .negSucc k => (npw x (k + 1))⁻¹

/-- SI prefix `10^p` -/
def ten (p : Int) : Rat := zpw 10 p

def statCMag : Rat := 1 / 2997924580

/-- SI magnitude of one table unit (pint's `default_en.txt` for the plain units, `ureg.py:26-87` for the rest) -/
def baseMag (cd : Codata) : Base → Rat
  | .meter => 1
  | .angstrom => 1 / 10000000000
  | .angstromCap => 1 / 10000000000
  | .bohr => cd.a0
  | .inch => (9144 / 10000) / 36
  | .foot => (9144 / 10000) / 3
  | .yard => 9144 / 10000
  | .mile => 1760 * (9144 / 10000)
  | .gram => 1 / 1000
  | .amu => cd.mu
  | .emass => cd.me
  | .second => 1
  | .minute => 60
  | .hour => 3600
  | .ampere => 1
  | .kelvin => 1
  | .rankine => 5 / 9
  | .mole => 1
  | .coulomb => 1
  | .echarge => cd.e
  | .statC => statCMag
  | .joule => 1
  | .calorie => 4184 / 1000
  | .eV => cd.eV
  | .hartree => cd.Eh
  | .erg => 1 / 10000000
  | .hertz => 1
  | .wavenumber => 100
  | .debye => (1 / 1000000000000000000) * statCMag * (1 / 100)
  | .newton => 1
  | .dyne => 1 / 100000
  | .pascal => 1
  | .bar => 100000
  | .atm => 101325
  | .torr => 101325 / 760
  | .volt => 1
  | .tesla => 1
  | .farad => 1
  | .watt => 1
  | .au u => cd.au u
  | .auPressure => cd.Eh / (cd.a0 * cd.a0 * cd.a0)

open Dim in
def auDim : AuU → Dim
  | .hyper1 => smul 3 charge + smul 3 length - smul 2 energy
  | .hyper2 => smul 4 charge + smul 4 length - smul 3 energy
  | .action => energy + time
  | .chargeDensity => charge - smul 3 length
  | .current => current
  | .dipole => charge + length
  | .efield => volt - length
  | .efg => volt - smul 2 length
  | .polarizability => smul 2 charge + smul 2 length - energy
  | .potential => volt
  | .quadrupole => charge + smul 2 length
  | .force => force
  | .magDipole => energy - tesla
  | .magFlux => tesla
  | .magnetizability => energy - smul 2 tesla
  | .momentum => mass + length - time
  | .permittivity => farad - length
  | .time => time
  | .velocity => length - time

open Dim in
def baseDim : Base → Dim
  | .meter | .angstrom | .angstromCap | .bohr | .inch | .foot | .yard | .mile => length
  | .gram | .amu | .emass => mass
  | .second | .minute | .hour => time
  | .ampere => current
  | .kelvin | .rankine => temperature
  | .mole => substance
  | .coulomb | .echarge | .statC => charge
  | .joule | .calorie | .eV | .hartree | .erg => energy
  | .hertz => frequency
  | .wavenumber => invLength
  | .debye => charge + length
  | .newton | .dyne => force
  | .pascal | .bar | .atm | .torr => pressure
  | .volt => volt
  | .tesla => tesla
  | .farad => farad
  | .watt => power
  | .au u => auDim u
  | .auPressure => pressure

/-! ## unit expressions and the SI model -/

inductive Expr
  | num (q : Rat)
  | unit (p : Int) (b : Base)
  | mul (a b : Expr)
  | div (a b : Expr)
  | pow (a : Expr) (n : Int)
  deriving Repr

inductive Err
  | dimensionality     -- pint.DimensionalityError
  | undefinedUnit      -- pint.UndefinedUnitError
  deriving DecidableEq, Repr

def mag (cd : Codata) : Expr → Rat
  | .num q => q
  | .unit p b => ten p * baseMag cd b
  | .mul a b => mag cd a * mag cd b
  | .div a b => mag cd a / mag cd b
  | .pow a n => zpw (mag cd a) n

def dim : Expr → Dim
  | .num _ => Dim.zero
  | .unit _ b => baseDim b
  | .mul a b => dim a + dim b
  | .div a b => dim a - dim b
  | .pow a n => Dim.smul n (dim a)

/-- **the property's conversion factor**: ratio of SI magnitudes when the dimensions agree -/
def conv (cd : Codata) (a b : Expr) : Except Err Rat :=
  if dim a = dim b then .ok (mag cd a / mag cd b) else .error .dimensionality

/-! ## the six dimensions pint's enabled contexts connect (`ureg.py:167-193`) -/

inductive Node
  | E | F | W | M | Th | EM
  deriving DecidableEq, Repr

def dimNode (d : Dim) : Option Node :=
  if d = Dim.energy then some .E
  else if d = Dim.frequency then some .F
  else if d = Dim.invLength then some .W
  else if d = Dim.mass then some .M
  else if d = Dim.temperature then some .Th
  else if d = Dim.energyPerMol then some .EM
  else none

/-- energy carried by one SI unit of a bridged dimension: E = hν = hc/λ = mc² = kT, E_molar/N_A -/
def equiv (cd : Codata) : Node → Rat
  | .E => 1
  | .F => cd.h
  | .W => cd.h * cd.c
  | .M => cd.c * cd.c
  | .Th => cd.kB
  | .EM => 1 / cd.NA

/-- the physically intended bridged factor (the specification for bridged pairs) -/
def convPhys (cd : Codata) (a b : Expr) : Except Err Rat :=
  match dimNode (dim a), dimNode (dim b) with
  | some s, some d => .ok (mag cd a * equiv cd s / (mag cd b * equiv cd d))
  | _, _ => conv cd a b

/-! ## the model of the code -/

/-- keys of a pint `UnitsContainer` as they occur on the way through `convert` -/
inductive UKey
  | u (p : Int) (b : Base)              -- a (prefixed) table unit
  | rel (p : Int) (a b : NistU)         -- `<prefix><a>_to_<b>` (ureg.py:98-126)
  | planck                              -- `plancks_constant` (ureg.py:33)
  | avogadro                            -- `avogadro_constant` = N_A (ureg.py:26)
  deriving DecidableEq, Repr

abbrev Cont := List (UKey × Int)

/-- `new._d[key] += value; if new._d[key] == 0: del new._d[key]` on an insertion-ordered dict -/
def cadd : Cont → UKey → Int → Cont
  | [], k, v => if v = 0 then [] else [(k, v)]
  | (k', v') :: t, k, v =>
    if k' = k then (if v' + v = 0 then t else (k', v' + v) :: t) else (k', v') :: cadd t k v

/-- `UnitsContainer.__mul__` (pint/util.py:631-643) -/
def cmul (c1 c2 : Cont) : Cont := c2.foldl (fun acc kv => cadd acc kv.1 kv.2) c1
/-- `UnitsContainer.__truediv__` (pint/util.py:658-670) -/
def cdiv (c1 c2 : Cont) : Cont := c2.foldl (fun acc kv => cadd acc kv.1 (-kv.2)) c1
/-- `UnitsContainer.__pow__` (pint/util.py:647-656) -/
def cpow (c : Cont) (n : Int) : Cont := c.map (fun kv => (kv.1, kv.2 * n))

/-- `ureg.parse_expression(s)` → (magnitude, units)  (context.py:316-328) -/
def parse : Expr → Rat × Cont
  | .num q => (q, [])
  | .unit p b => (1, [(.u p b, 1)])
  | .mul a b => ((parse a).1 * (parse b).1, cmul (parse a).2 (parse b).2)
  | .div a b => ((parse a).1 / (parse b).1, cdiv (parse a).2 (parse b).2)
  | .pow a n => (zpw (parse a).1 n, cpow (parse a).2 n)

def nistMag (cd : Codata) : NistU → Rat
  | .invm => 1
  | .amu => cd.mu
  | .ev => cd.eV
  | .hartree => cd.Eh
  | .hertz => 1
  | .joule => 1
  | .kelvin => 1
  | .kg => 1

def nistDim : NistU → Dim
  | .invm => Dim.invLength
  | .amu => Dim.mass
  | .ev => Dim.energy
  | .hartree => Dim.energy
  | .hertz => Dim.frequency
  | .joule => Dim.energy
  | .kelvin => Dim.temperature
  | .kg => Dim.mass

/-- `a_to_b = <published value> / a * b`  (ureg.py:113-126) -/
def keyMag (cd : Codata) : UKey → Rat
  | .u p b => ten p * baseMag cd b
  | .rel p a b => ten p * (cd.rel a b * nistMag cd b / nistMag cd a)
  | .planck => cd.h
  | .avogadro => cd.NA

def keyDim : UKey → Dim
  | .u _ b => baseDim b
  | .rel _ a b => nistDim b - nistDim a
  | .planck => Dim.energy + Dim.time
  | .avogadro => Dim.smul (-1) Dim.substance

def contMag (cd : Codata) : Cont → Rat
  | [] => 1
  | (k, v) :: t => zpw (keyMag cd k) v * contMag cd t

def contDim : Cont → Dim
  | [] => Dim.zero
  | (k, v) :: t => Dim.smul v (keyDim k) + contDim t

/-- is the table unit one of NIST's eight? -/
def baseNist : Base → Option NistU
  | .amu => some .amu
  | .eV => some .ev
  | .hartree => some .hartree
  | .hertz => some .hertz
  | .joule => some .joule
  | .kelvin => some .kelvin
  | _ => none

/-- what `_find_nist_unit` returns (ureg.py:131-143) -/
inductive Sel
  | named (p : Int) (n : NistU)   -- the factor's own name `<prefix><nist name>`
  | opaque                        -- a name that contains a NIST name but is not `<prefix><nist name>`
  | invMeter                      -- the literal "inverse_meter" of the second loop
  deriving DecidableEq, Repr

/-- `any(x in name for x in _nist_units)` for the name of one key -/
def selOfKey : UKey → Option Sel
  | .u p b =>
    match baseNist b with
    | some n => some (.named p n)
    | none => if b = .gram ∧ p = 3 then some (.named 0 .kg) else none    -- "kilo"+"gram" = "kilogram"
  | .rel _ _ _ => some .opaque     -- "hertz_to_hartree" contains "hertz" (and "hartree")
  | .planck => none                -- "plancks_constant"
  | .avogadro => none              -- "avogadro_constant"

def findFirst : Cont → Option Sel
  | [] => none
  | (k, v) :: t =>
    if v < 1 then findFirst t
    else match selOfKey k with
      | some s => some s
      | none => findFirst t

def hasInvMeter : Cont → Bool
  | [] => false
  | (k, v) :: t => (k = .u 0 .meter ∧ v = -1) || hasInvMeter t

def findNist (c : Cont) : Option Sel :=
  match findFirst c with
  | some s => some s
  | none => if hasInvMeter c then some .invMeter else none

/-- `ureg.parse_expression("{left}_to_{right}")` : the 56 published pairs are defined, with any prefix -/
def resolve (s : Sel) (right : NistU) : Except Err UKey :=
  match s with
  | .named p a => if a = right then .error .undefinedUnit else .ok (.rel p a right)
  | .invMeter => if right = .invm then .error .undefinedUnit else .ok (.rel 0 .invm right)
  | .opaque => .error .undefinedUnit

/-- `build_transformer(right_unit, default)` (ureg.py:145-165) -/
def nameStep (right : NistU) (dflt : Cont) (c : Cont) : Except Err Cont :=
  match findNist c with
  | none => .ok (cmul c dflt)
  | some s => (resolve s right).map (fun k => cmul c [(k, 1)])

/-- one edge of the context graph (ureg.py:167-190) -/
def transform (src dst : Node) (c : Cont) : Except Err Cont :=
  match src, dst with
  | .E, .F => nameStep .hertz [(.planck, -1)] c
  | .F, .E => nameStep .hartree [(.planck, 1)] c
  | .E, .W => nameStep .invm [(.rel 0 .hartree .invm, 1)] c
  | .W, .E => nameStep .hartree [(.rel 0 .invm .hartree, 1)] c
  | .E, .M => nameStep .kg [(.rel 0 .hartree .kg, 1)] c
  | .M, .E => nameStep .hartree [(.rel 0 .kg .hartree, 1)] c
  | .E, .Th => nameStep .kelvin [(.rel 0 .hartree .kelvin, 1)] c
  | .Th, .E => nameStep .hartree [(.rel 0 .kelvin .hartree, 1)] c
  | .E, .EM => .ok (cmul c [(.avogadro, 1)])
  | .EM, .E => .ok (cdiv c [(.avogadro, 1)])
  | _, _ => .ok c     -- not an edge (never requested by `route`)

/-- `find_shortest_path` in the star graph centred at [energy] -/
def route (s d : Option Node) : List (Node × Node) :=
  match s, d with
  | some s, some d =>
    if s = d then [] else if s = .E ∨ d = .E then [(s, d)] else [(s, .E), (.E, d)]
  | _, _ => []

def runRoute : List (Node × Node) → Cont → Except Err Cont
  | [], c => .ok c
  | (s, d) :: t, c => (transform s d c).bind (runRoute t)

/-- plain `_convert`: dimensionality check, then ratio of the root-unit factors -/
def plainConvert (cd : Codata) (value : Rat) (src dst : Cont) : Except Err Rat :=
  if contDim src = contDim dst then .ok (value * contMag cd src / contMag cd dst)
  else .error .dimensionality

/-- `PhysicalConstantsContext.conversion_factor` (context.py:278-331) -/
def convImpl (cd : Codata) (a b : Expr) : Except Err Rat :=
  let pa := parse a
  let pb := parse b
  let factor := pa.1 / pb.1
  match runRoute (route (dimNode (contDim pa.2)) (dimNode (contDim pb.2))) pa.2 with
  | .error e => .error e
  | .ok c => plainConvert cd factor c pb.2

end QcelVerif.Units
