import QcelVerif.Model.PeriodicTable
/-!
Model of `qcelemental/molparse/nucleus.py` (C06).  Core Lean only.

  * NUCLEUS grammar (molparse/regex.py:3-16, compiled at nucleus.py:9 with
    `\A … \Z`, IGNORECASE | VERBOSE)                        -> `matchNucleus` (hand-written recogniser that
    follows the pattern alternative by alternative, greedy-first with backtracking; ASCII only)
  * `parse_nucleus_label` field extraction (nucleus.py:406-437) -> `parseLabel`
  * `reconcile_nucleus` (nucleus.py:13-345):
      offer_element_symbol / offer_atomic_number (165-215)  -> `offerE`, `offerZ`
      offer_mass_number (217-232), offer_mass_value (234-256) -> `offerClue`
      offer_reality / offer_user_label (258-269)            -> inlined in `reconcile`
      reconcile(exact, tests, feature) (146-163)            -> `firstPassing`
  * `functools.lru_cache(maxsize=512)` (nucleus.py:12)      -> `Lru` (generic, any function)

Numbers.  Arguments are `PyNum` (int | float | bool) and only ever used through their value
(`int(z)`, `float(m)`, `==`, `<`), except that the `real` argument is passed through as a candidate.
Doubles are exact rationals.  Every place where CPython rounds (float(str), float(int), one IEEE
`+`/`-`) goes through the parameter `rd : Rat → Rat`; the driver instantiates it with `rd64`
(round-to-nearest-even binary64).  `round(m, 0)` on a double is exact round-half-even.
-/
namespace QcelVerif.Nucleus
open QcelVerif QcelVerif.PStr QcelVerif.PT

/-! ## Python numbers -/

inductive PyNum where
  | int (i : Int)
  | float (q : Rat)
  | bool (b : Bool)
  deriving Repr, DecidableEq

def PyNum.val : PyNum → Rat
  | .int i => (i : Rat)
  | .float q => q
  | .bool b => if b then 1 else 0

/-- `int(x)`: truncation toward zero -/
def truncInt (q : Rat) : Int := if 0 ≤ q then q.floor else -((-q).floor)

/-- round-half-even to an integer: `int(round(m, 0))` for a double `m` -/
def roundHalfEven (q : Rat) : Int :=
  let f := q.floor
  let r := q - (f : Rat)
  if r < 1/2 then f else if 1/2 < r then f + 1 else if f % 2 = 0 then f else f + 1

def pow2 (e : Int) : Rat := if 0 ≤ e then ((2 ^ e.toNat : Nat) : Rat) else 1 / ((2 ^ (-e).toNat : Nat) : Rat)

/-- ⌊log2 a⌋ for a positive rational -/
def ilog2 (a : Rat) : Int :=
  let e0 : Int := (Nat.log2 a.num.toNat : Int) - (Nat.log2 a.den : Int)
  if a < pow2 e0 then e0 - 1 else if pow2 (e0 + 1) ≤ a then e0 + 1 else e0

/-- round-to-nearest-even onto binary64 (normal and subnormal range; no overflow handling — values
≥ 2^1024 are outside the scope of the checks) -/
def rd64 (q : Rat) : Rat :=
  if q = 0 then 0
  else
    let a := if q < 0 then -q else q
    let e := ilog2 a
    let e' := if e < -1022 then -1022 else e
    let ulp := pow2 (e' - 52)
    let r := (roundHalfEven (a / ulp) : Rat) * ulp
    if q < 0 then -r else r

def absR (q : Rat) : Rat := if q < 0 then -q else q

/-- `str(int)` -/
def intStr (a : Int) : Bytes := if a < 0 then 45 :: natDigits (-a).toNat else natDigits a.toNat

/-- value of `digits[.digits]` (the only float spellings in the shipped table and in NUCLEUS) -/
def decVal (s : Bytes) : Option Rat :=
  let ip := s.takeWhile isDigit
  let rest := s.dropWhile isDigit
  if ip.isEmpty then none
  else match rest with
    | [] => some (digitsVal ip : Rat)
    | c :: fp =>
      if c == 46 && !fp.isEmpty && fp.all isDigit then
        some ((digitsVal ip : Rat) + (digitsVal fp : Rat) / ((10 ^ fp.length : Nat) : Rat))
      else none

/-! ## NUCLEUS recogniser -/

def isWord (c : Nat) : Bool := isAlpha c || isDigit c || c == 95

/-- all ways a greedy `p{1,max}` can match a prefix, longest first: (matched, rest) -/
def runs (p : Nat → Bool) (max : Nat) (s : Bytes) : List (Bytes × Bytes) :=
  let n := min (s.takeWhile p).length max
  (List.range n).reverse.map fun k => (s.take (k + 1), s.drop (k + 1))

/-- greedy optional group: the group's matches first, then the empty match -/
def optG {α} (alts : List (α × Bytes)) (s : Bytes) : List (Option α × Bytes) :=
  alts.map (fun x => (some x.1, x.2)) ++ [(none, s)]

structure Groups where
  gh1 : Bool
  gh2 : Bool
  A : Option Bytes
  E : Option Bytes
  user1 : Option Bytes
  Z : Option Bytes
  user2 : Option Bytes
  mass : Option Bytes
  deriving Repr, DecidableEq

/-- `(?:(?P<gh1>@)|(?P<gh2>Gh\())?`  (IGNORECASE): (gh1, gh2, rest) -/
def ghostAlts (s : Bytes) : List (Bool × Bool × Bytes) :=
  (match s with | 64 :: t => [(true, false, t)] | _ => []) ++
  (match s with
    | g :: h :: 40 :: t => if toLower g == 103 && toLower h == 104 then [(false, true, t)] else []
    | _ => []) ++
  [(false, false, s)]

/-- `(_\w+)` -/
def userUnderscore (s : Bytes) : List (Bytes × Bytes) :=
  match s with
  | 95 :: t => (runs isWord t.length t).map fun x => (95 :: x.1, x.2)
  | _ => []

/-- `label1 = (?P<A>\d+)? (?P<E>[A-Z]{1,3}) (?P<user1>(_\w+)|(\d+))?` : (A, E, user1, rest) -/
def label1Alts (s : Bytes) : List (Option Bytes × Bytes × Option Bytes × Bytes) :=
  (optG (runs isDigit s.length s) s).flatMap fun a =>
    (runs isAlpha 3 a.2).flatMap fun e =>
      (optG (userUnderscore e.2 ++ runs isDigit e.2.length e.2) e.2).map fun u => (a.1, e.1, u.1, u.2)

/-- `label2 = (?P<Z>\d{1,3}) (?P<user2>(_\w+))?` : (Z, user2, rest) -/
def label2Alts (s : Bytes) : List (Bytes × Option Bytes × Bytes) :=
  (runs isDigit 3 s).flatMap fun z => (optG (userUnderscore z.2) z.2).map fun u => (z.1, u.1, u.2)

/-- `(?:@(?P<mass>\d+\.\d+))?` -/
def massAlts (s : Bytes) : List (Option Bytes × Bytes) :=
  optG (match s with
    | 64 :: t =>
        (runs isDigit t.length t).flatMap fun ip =>
          match ip.2 with
          | 46 :: u => (runs isDigit u.length u).map fun fp => (ip.1 ++ 46 :: fp.1, fp.2)
          | _ => []
    | _ => []) s

/-- `(?(gh2)\))` then `\Z` -/
def closes (gh2 : Bool) (s : Bytes) : Bool := if gh2 then s == [41] else s.isEmpty

/-- every complete match in the order the backtracking matcher explores them; the head is the match
CPython reports -/
def allMatches (s : Bytes) : List Groups :=
  (ghostAlts s).flatMap fun g =>
    let gh1 := g.1
    let gh2 := g.2.1
    let viaLabel1 := (label1Alts g.2.2).flatMap fun l =>
      ((massAlts l.2.2.2).filter fun m => closes gh2 m.2).map fun m =>
        ({ gh1 := gh1, gh2 := gh2, A := l.1, E := some l.2.1, user1 := l.2.2.1, Z := none, user2 := none, mass := m.1 } : Groups)
    let viaLabel2 := (label2Alts g.2.2).flatMap fun l =>
      ((massAlts l.2.2).filter fun m => closes gh2 m.2).map fun m =>
        ({ gh1 := gh1, gh2 := gh2, A := none, E := none, user1 := none, Z := some l.1, user2 := l.2.1, mass := m.1 } : Groups)
    viaLabel1 ++ viaLabel2

def matchNucleus (s : Bytes) : Option Groups := (allMatches s).head?

structure Label where
  A : Option Nat
  Z : Option Nat
  E : Option Bytes
  /-- the decimal text of the mass; `float(text)` is applied by the consumer -/
  mass : Option Bytes
  real : Bool
  user : Option Bytes
  deriving Repr, DecidableEq

/-- `parse_nucleus_label` (nucleus.py:406-437); `none` = ValidationError "not parseable" -/
def parseLabel (s : Bytes) : Option Label :=
  (matchNucleus s).map fun g =>
    { real := !(g.gh1 || g.gh2)
      A := g.A.map digitsVal
      Z := g.Z.map digitsVal
      E := g.E
      user := match g.user1 with | some u => some u | none => g.user2
      mass := g.mass }

/-! ## tables -/

structure NTables where
  pt : PT.Tables
  /-- (EA, _EE, A, mass) rows in file order, strings packed -/
  nuclides : List (Nat × Nat × Nat × Nat)

inductive Feature where
  | atomicNumber | mass | massNumber | realGhost | userLabel
  deriving Repr, DecidableEq

inductive Err where
  | notAnElement
  | validation (f : Feature)
  | unparseable            -- ValidationError "Nucleus label is not parseable"
  | other                  -- anything else (cannot happen with the shipped table)
  deriving Repr, DecidableEq

structure Range where
  amin : Int
  amax : Int
  mmin : Rat
  mmax : Rat
  deriving Repr, DecidableEq

/-- a Python dict built by successive assignment: a later row with the same key replaces the earlier -/
def dictVals : List (Nat × Rat) → List (Nat × Rat)
  | [] => []
  | (a, m) :: t => if t.any (fun x => x.1 == a) then dictVals t else (a, m) :: dictVals t

def minL {α} (lt : α → α → Bool) : List α → Option α
  | [] => none
  | x :: t => some (t.foldl (fun b y => if lt y b then y else b) x)

/-- `_el2a2mass[sym]` (periodic_table.py:64-66) and its min/max keys and values (nucleus.py:180-184) -/
def elRange (N : NTables) (rd : Rat → Rat) (sym : Nat) : Option Range :=
  let rows := N.nuclides.filter (fun r => r.2.1 == sym)
  match rows.mapM (fun r => (decVal (unpack r.2.2.2)).map fun q => (r.2.2.1, rd q)) with
  | none => none
  | some kv =>
    let d := dictVals kv
    match minL (fun a b => decide (a < b)) (d.map (·.1)), minL (fun a b => decide (b < a)) (d.map (·.1)),
          minL (fun a b => decide (a < b)) (d.map (·.2)), minL (fun a b => decide (b < a)) (d.map (·.2)) with
    | some a0, some a1, some m0, some m1 => some ⟨a0, a1, m0, m1⟩
    | _, _, _, _ => none

/-- `periodictable.to_mass(key)` as a float -/
def tableMass (N : NTables) (rd : Rat → Rat) (key : PyVal) : Except Err Rat :=
  match N.pt.toMass key with
  | none => .error .notAnElement
  | some s => match decVal (unpack s) with
    | none => .error .other
    | some q => .ok (rd q)

/-! ## evidence -/

inductive APred where
  | range (nonphys : Bool) (amin amax : Int)
  | eq (a : Int)
  deriving Repr, DecidableEq

def APred.holds : APred → Int → Bool
  | .range true _ _, x => x == -1 || decide (1 ≤ x)                       -- nucleus.py:191
  | .range false lo hi, x => x == -1 || (decide (lo ≤ x) && decide (x ≤ hi))  -- :195
  | .eq a, x => x == a                                                     -- :225, :249

inductive MPred where
  | range (nonphys : Bool) (lo hi : Rat)   -- lo = fl(mmin − 0.5), hi = fl(mmax + 0.5)
  | near (amass mtol : Rat)
  | eq (m : Rat)
  deriving Repr, DecidableEq

def MPred.holds (rd : Rat → Rat) : MPred → Rat → Bool
  | .range true _ _, x => decide (1/2 < x)                                 -- :205
  | .range false lo hi, x => decide (lo ≤ x) && decide (x ≤ hi)            -- :209
  | .near am mtol, x => decide (absR (rd (x - am)) ≤ mtol)                 -- :230
  | .eq m, x => x == m                                                     -- :254

/-- what `offer_atomic_number(z)` appends (nucleus.py:171-215) -/
structure ZOffer where
  z : Int
  sym : Nat
  zA : Int
  zMass : Rat
  aPred : APred
  mPred : MPred
  deriving Repr, DecidableEq

def ofOpt {α} (e : Err) : Option α → Except Err α
  | some a => .ok a
  | none => .error e

def offerZ (N : NTables) (rd : Rat → Rat) (rng : Nat → Option Range) (nonphys : Bool) (z : Int) : Except Err ZOffer := do
  let sym ← ofOpt .notAnElement (N.pt.toE (.int z) false)
  let zMass ← tableMass N rd (.int z)
  let zA ← ofOpt .notAnElement (N.pt.toA (.int z))
  let r ← ofOpt .other (rng sym)
  pure { z := z, sym := sym, zA := (zA : Int), zMass := zMass
         aPred := .range nonphys r.amin r.amax
         mPred := .range nonphys (rd (r.mmin - 1/2)) (rd (r.mmax + 1/2)) }

/-- `offer_element_symbol(e)` (nucleus.py:165-169) -/
def offerE (N : NTables) (rd : Rat → Rat) (rng : Nat → Option Range) (nonphys : Bool) (e : Bytes) : Except Err ZOffer := do
  let z ← ofOpt .notAnElement (N.pt.toZ (.str e) true)
  offerZ N rd rng nonphys (z : Int)

/-- an isotope clue: `A` (argument or label) or a mass value (argument or label) -/
inductive Clue where
  | massNumber (a : Int)
  | massValue (m : Rat)
  deriving Repr, DecidableEq

/-- what `offer_mass_number` / `offer_mass_value` append: (A candidate, A test, mass candidate, mass test) -/
structure Late where
  a : Int
  aPred : APred
  m : Rat
  mPred : MPred
  deriving Repr, DecidableEq

/-- the `A` that a mass value suggests (nucleus.py:237-246): the rounded mass if that nuclide exists and
its mass is not further than `mtol` away, else −1 -/
def massToA (N : NTables) (rd : Rat → Rat) (sym : Nat) (mtol : Rat) (m : Rat) : Int :=
  let ma := roundHalfEven m
  match tableMass N rd (.str (unpack sym ++ intStr ma)) with
  | .ok tm => if mtol < absR (rd (tm - m)) then -1 else ma
  | .error _ => -1

def offerClue (N : NTables) (rd : Rat → Rat) (sym : Nat) (mtol : Rat) : Clue → Except Err Late
  | .massNumber a => do
      let am ← tableMass N rd (.str (unpack sym ++ intStr a))
      pure { a := a, aPred := .eq a, m := am, mPred := .near am mtol }
  | .massValue m =>
      let ma := massToA N rd sym mtol m
      pure { a := ma, aPred := .eq ma, m := m, mPred := .eq m }

/-- `reconcile(exact, tests, feature)` (nucleus.py:146-163) -/
def firstPassing {α π} (holds : π → α → Bool) (cands : List α) (preds : List π) : Option α :=
  cands.find? fun c => preds.all fun p => holds p c

structure Input where
  A : Option PyNum
  Z : Option PyNum
  E : Option Bytes
  mass : Option PyNum
  real : Option PyNum
  label : Option Bytes
  speclabel : Bool
  nonphysical : Bool
  mtol : PyNum
  deriving Repr, DecidableEq

structure Output where
  A : Int
  Z : Int
  E : Nat
  mass : Rat
  real : PyNum
  user : Bytes
  deriving Repr, DecidableEq

def optList {α} : Option α → List α
  | some a => [a]
  | none => []

/-- the label as it is consulted: parsed when `speclabel is True` (nucleus.py:296-297) -/
def labelOf (i : Input) : Except Err (Option Label) :=
  match i.label, i.speclabel with
  | some l, true => (ofOpt .unparseable (parseLabel l)).map some
  | _, _ => .ok none

/-- first stage (nucleus.py:290-302): Z, E, label-Z, label-E in this order -/
def zStage (N : NTables) (rd : Rat → Rat) (rng : Nat → Option Range) (i : Input) : Except Err (List ZOffer × Option Label) := do
  let o1 ← (optList i.Z).mapM fun z => offerZ N rd rng i.nonphysical (truncInt z.val)
  let o2 ← (optList i.E).mapM fun e => offerE N rd rng i.nonphysical e
  let lab ← labelOf i
  let o3 ← (optList (lab.bind (·.Z))).mapM fun (z : Nat) => offerZ N rd rng i.nonphysical (z : Int)
  let o4 ← (optList (lab.bind (·.E))).mapM fun e => offerE N rd rng i.nonphysical e
  pure (o1 ++ o2 ++ o3 ++ o4, lab)

/-- `float(text)` of the label's mass group -/
def labelMass (rd : Rat → Rat) (t : Bytes) : Except Err Rat :=
  match decVal t with
  | some q => .ok (rd q)
  | none => .error .other

/-- isotope clues in source order (nucleus.py:309-324) -/
def cluesOf (rd : Rat → Rat) (i : Input) (lab : Option Label) : Except Err (List Clue) := do
  let lm ← (optList (lab.bind (·.mass))).mapM (labelMass rd)
  pure ((optList i.A).map (fun a => Clue.massNumber (truncInt a.val)) ++
        (optList i.mass).map (fun m => Clue.massValue (rd m.val)) ++
        (optList (lab.bind (·.A))).map (fun (a : Nat) => Clue.massNumber (a : Int)) ++
        lm.map Clue.massValue)

/-- real/ghost candidates and tests (nucleus.py:282, 315-320) -/
def realClues (i : Input) (lab : Option Label) : List PyNum :=
  optList i.real ++ (optList lab).map fun l => PyNum.bool l.real

/-- user-label candidates (nucleus.py:284, 325-328) -/
def userClues (i : Input) (lab : Option Label) : List Bytes :=
  match i.label with
  | none => []
  | some l => if i.speclabel then (optList (lab.bind (·.user))).map lower else [lower l]

/-- `reconcile_nucleus` with the per-element range table `rng` abstracted (so that the driver can
memoise it); `reconcile` below instantiates it with `elRange` -/
def reconcileWith (N : NTables) (rd : Rat → Rat) (rng : Nat → Option Range) (i : Input) : Except Err Output := do
  let (zo, lab) ← zStage N rd rng i
  let zc := zo.map (·.z)
  let zf ← ofOpt (.validation .atomicNumber) (firstPassing (fun (p c : Int) => c == p) zc zc)
  let sym ← ofOpt .notAnElement (N.pt.toE (.int zf) false)
  let clues ← cluesOf rd i lab
  let late ← clues.mapM (offerClue N rd sym i.mtol.val)
  let mf ← ofOpt (.validation .mass)
    (firstPassing (MPred.holds rd) (zo.map (·.zMass) ++ late.map (·.m)) (zo.map (·.mPred) ++ late.map (·.mPred)))
  let af ← ofOpt (.validation .massNumber)
    (firstPassing APred.holds (zo.map (·.zA) ++ late.map (·.a)) (zo.map (·.aPred) ++ late.map (·.aPred)))
  let rc := realClues i lab
  let rf ← ofOpt (.validation .realGhost)
    (firstPassing (fun (p c : PyNum) => c.val == p.val) (PyNum.bool true :: rc) rc)
  let uc := userClues i lab
  let uf ← ofOpt (.validation .userLabel) (firstPassing (fun (p c : Bytes) => c == p) ([] :: uc) uc)
  pure { A := af, Z := zf, E := sym, mass := mf, real := rf, user := uf }

def reconcile (N : NTables) (rd : Rat → Rat) (i : Input) : Except Err Output :=
  reconcileWith N rd (elRange N rd) i

/-- the clues an output represents when it is fed back (from_arrays.py: "-1 equivalent to None") -/
def feedback (i : Input) (o : Output) : Input :=
  { A := if o.A = -1 then none else some (.int o.A), Z := some (.int o.Z), E := some (unpack o.E)
    mass := some (.float o.mass), real := some o.real, label := some o.user, speclabel := false
    nonphysical := i.nonphysical, mtol := i.mtol }

/-! ## Python-equality of inputs and outputs (what `lru_cache` keys see) -/

def optNumEq : Option PyNum → Option PyNum → Bool
  | none, none => true
  | some a, some b => a.val == b.val
  | _, _ => false

/-- `==` on the argument tuples -/
def Input.pyEq (i j : Input) : Bool :=
  optNumEq i.A j.A && optNumEq i.Z j.Z && i.E == j.E && optNumEq i.mass j.mass && optNumEq i.real j.real &&
  i.label == j.label && i.speclabel == j.speclabel && i.nonphysical == j.nonphysical && i.mtol.val == j.mtol.val

/-- `==` on result tuples -/
def Output.pyEq (o p : Output) : Bool :=
  o.A == p.A && o.Z == p.Z && o.E == p.E && o.mass == p.mass && o.real.val == p.real.val && o.user == p.user

/-! ## LRU memo table in front of any function -/

structure Lru (κ ν : Type) where
  cap : Nat
  /-- most recently used first -/
  entries : List (κ × ν)

inductive Op (κ : Type) where
  | call (k : κ)
  | clear

namespace Lru
variable {κ ν ε : Type}

/-- one call through the memo table: a hit returns the stored value and refreshes the entry; a miss
calls `f`, stores a successful result (exceptions are not stored) and evicts the least recently used
entry beyond `cap` -/
def call (keq : κ → κ → Bool) (f : κ → Except ε ν) (c : Lru κ ν) (k : κ) : Lru κ ν × Except ε ν :=
  match c.entries.find? (fun e => keq e.1 k) with
  | some e => ({ c with entries := e :: c.entries.filter (fun e' => !keq e'.1 k) }, .ok e.2)
  | none =>
    match f k with
    | .ok v => ({ c with entries := ((k, v) :: c.entries).take c.cap }, .ok v)
    | .error x => (c, .error x)

def step (keq : κ → κ → Bool) (f : κ → Except ε ν) (c : Lru κ ν) : Op κ → Lru κ ν × Option (Except ε ν)
  | .call k => let r := call keq f c k; (r.1, some r.2)
  | .clear => ({ c with entries := [] }, none)

/-- run a history; one result per `call` -/
def run (keq : κ → κ → Bool) (f : κ → Except ε ν) : Lru κ ν → List (Op κ) → List (κ × Except ε ν)
  | _, [] => []
  | c, .call k :: t => let r := call keq f c k; (k, r.2) :: run keq f r.1 t
  | c, .clear :: t => run keq f { c with entries := [] } t

end Lru

end QcelVerif.Nucleus
