import QcelVerif.Model.MolSchema
import QcelVerif.Model.Schema
/-!
C09 (c) — what `Molecule.__init__` and `Molecule.dict()` do AROUND the schema functions
(qcelemental/models/molecule.py).  Core Lean only (imported by `Driver/C09.lean`).

  * `filterDefaults`   molecule.py:1489-1513 `_filter_defaults`: `atomic_numbers` always dropped; `masses` and
                       `mass_numbers` dropped when the masses ARE the default masses (`np.array_equal`, the exact
                       test of /repo 1141b4a — not `np.allclose`); `real` dropped when all true; `atom_labels`
                       dropped when all empty; `fragments`, `fragment_charges`, `fragment_multiplicities`
                       dropped when the pattern is the single fragment `[0, …, nat-1]`.  A key it pops that is
                       not there is a `KeyError` (`Err.key`).
  * `merge`            molecule.py:364 `{**kwargs, **schema}`: the schema's entry where it has one, else the
                       caller's own (so a key the caller SUPPLIED survives `_filter_defaults`).
  * `construct`        molecule.py:334-384, `validate` path: `schema_name` / `schema_version` defaulted,
                       `from_schema(kwargs)`, `to_schema(·, dtype=schema_version, np_out=True)`,
                       `_filter_defaults`, `validated = True`, merge, `super().__init__` (pydantic: on exact
                       values the coercions list → ndarray, int → float are the identity and are not
                       represented), symbols title-cased (376-379), geometry through `float_prep(·, 8)` (384).
  * `dictOf`           molecule.py:592-595 `dict()` = `by_alias`, `exclude_unset`: exactly the entries that were
                       set, under their aliases.  It does NOT re-add defaults; those come back through the
                       property accessors (449-509) `massesR` … `fragMultsR`, which is all `get_hash` reads.
  * `rebuild`          `Molecule(**d)`: `validate = not d.get("validated", False)` (349-350); with
                       `validated = True` nothing but pydantic runs: no `from_schema`, no title-casing, no
                       `float_prep` (382-384 is guarded by `validate or geometry_prep`).

The object is represented by the entries of its `__fields_set__` among the 19 keys of `MolSchema.MolDict`
(`none` = not set).  `schema_name`, `schema_version` travel beside it; `provenance` (always overwritten by
`from_schema`'s stamp), `extras` (defaulted to `{}`), `identifiers`, `id` are copied through `merge` untouched
and compared by the harness only.  `orient=True` (another geometry) is outside this model.

Parameters: `from_arrays` (`fa`, as in `Model/MolSchema.lean`), the default Å→a₀ factor, `formula_generator`,
`periodictable.to_mass`, one coordinate through `float_prep(·, 8)`, `str.title`.
-/
namespace QcelVerif.MolDict
open QcelVerif.MolSchema

structure Params (K : Type) where
  dflt : K                          -- constants.conversion_factor("Angstrom", "Bohr")   (to_schema.py:49)
  fg : List String → String         -- formula_generator                                  (to_schema.py:53)
  massOf : String → K               -- periodictable.to_mass                              (molecule.py:1491)
  prep : K → K                      -- float_prep(·, GEOMETRY_NOISE), one coordinate      (molecule.py:384)
  title : String → String           -- np.char.title                                      (molecule.py:376-379)

/-! ### `str.title` on ASCII (driver instance of `Params.title`) -/

def isAsciiAlpha (c : Char) : Bool := ('a' ≤ c && c ≤ 'z') || ('A' ≤ c && c ≤ 'Z')

/-- `prevCased`: was the previous character cased? -/
def titleAux : Bool → List Char → List Char
  | _, [] => []
  | prev, c :: t =>
    if isAsciiAlpha c then (if prev then c.toLower else c.toUpper) :: titleAux true t
    else c :: titleAux false t

def titleAscii (s : String) : String := String.ofList (titleAux false s.toList)

/-! ### `_filter_defaults` -/

def arangeI (n : Nat) : List Int := (List.range n).map Int.ofNat

/-- molecule.py:1489-1513.  `d` is the dictionary `to_schema(…, dtype=2)` returned. -/
def filterDefaults {K : Type} [DecidableEq K] (massOf : String → K) (d : MolDict K) : Except Err (MolDict K) :=
  match d.symbols with
  | none => .error .key                                              -- 1490 `dicary["symbols"]`
  | some syms =>
    let nat := syms.length
    match d.atomicNumbers with
    | none => .error .key                                            -- 1493 `pop("atomic_numbers")`
    | some _ =>
      let d1 := { d with atomicNumbers := none }
      match d1.masses with
      | none => .error .key                                          -- 1495 `dicary["masses"]`
      | some ms =>
        let step2 : Except Err (MolDict K) :=
          if syms.map massOf = ms then                               -- 1495 np.array_equal(default_mass, masses)
            match d1.massNumbers with
            | none => .error .key                                    -- 1496 `pop("mass_numbers")`
            | some _ => .ok { d1 with massNumbers := none, masses := none }
          else .ok d1
        match step2 with
        | .error e => .error e
        | .ok d2 =>
          match d2.real with
          | none => .error .key                                      -- 1499 `dicary["real"]`
          | some re =>
            let d3 := if re.all id then { d2 with real := none } else d2          -- 1499-1500
            match d3.atomLabels with
            | none => .error .key                                    -- 1502 `dicary["atom_labels"]`
            | some lb =>
              let d4 := if lb = List.replicate nat "" then { d3 with atomLabels := none } else d3   -- 1502-1503
              -- 1505-1506: `connectivity` present with the value None is popped; `to_schema` never writes
              -- that (the key is absent instead), and `MolDict` cannot hold it: nothing to do
              match d4.fragments with
              | none => .error .key                                  -- 1508 `dicary["fragments"]`
              | some fr =>
                if fr = [arangeI nat] then                           -- 1508
                  match d4.fragCharges, d4.fragMults with
                  | some _, some _ => .ok { d4 with fragments := none, fragCharges := none, fragMults := none }
                  | _, _ => .error .key                              -- 1510-1511 `pop(…)`
                else .ok d4

/-! ### `{**kwargs, **schema}` -/

def orElse' {α : Type} (a b : Option α) : Option α :=
  match a with
  | some x => some x
  | none => b

/-- molecule.py:364: an entry of `schema` wins; a key only the caller gave is kept -/
def merge {K : Type} (kw schema : MolDict K) : MolDict K :=
  { symbols := orElse' schema.symbols kw.symbols
    geometry := orElse' schema.geometry kw.geometry
    masses := orElse' schema.masses kw.masses
    atomicNumbers := orElse' schema.atomicNumbers kw.atomicNumbers
    massNumbers := orElse' schema.massNumbers kw.massNumbers
    atomLabels := orElse' schema.atomLabels kw.atomLabels
    real := orElse' schema.real kw.real
    name := orElse' schema.name kw.name
    comment := orElse' schema.comment kw.comment
    charge := orElse' schema.charge kw.charge
    mult := orElse' schema.mult kw.mult
    fragments := orElse' schema.fragments kw.fragments
    fragCharges := orElse' schema.fragCharges kw.fragCharges
    fragMults := orElse' schema.fragMults kw.fragMults
    fixCom := orElse' schema.fixCom kw.fixCom
    fixOri := orElse' schema.fixOri kw.fixOri
    fixSym := orElse' schema.fixSym kw.fixSym
    connectivity := orElse' schema.connectivity kw.connectivity
    validated := orElse' schema.validated kw.validated }

/-! ### the constructor -/

/-- 376-384: what is done to the stored values after pydantic, `validate` path -/
def finish {K : Type} (P : Params K) (d : MolDict K) : MolDict K :=
  { d with symbols := d.symbols.map (·.map P.title), geometry := d.geometry.map (·.map P.prep) }

/-- the part of the constructor after `from_schema` returned the record `r` (356-384) -/
def afterFromSchema {K : Type} [Mul K] [DecidableEq K] (P : Params K) (kw : MolDict K) (r : Molrec K) :
    Except Err (MolDict K) :=
  match filterDefaults P.massOf (molDict P.dflt P.fg r) with         -- 358-361 (dtype 2)
  | .error e => .error e
  | .ok f => .ok (finish P (merge { kw with validated := some true } f))   -- 363-364, 369, 376-384

/-- `Molecule(**kwargs)` with validation (`validated` absent or false in `kwargs`; `orient=False`).
`nm`, `ver`: the `schema_name` / `schema_version` entries of `kwargs` (353-354: defaulted).  `from_schema`
looks for a nested `"molecule"` entry only under version 1, where `kwargs` has none (a `KeyError`); so a
successful construction has `schema_version = 2` and `to_schema` is called with `dtype = 2`. -/
def construct {K : Type} [Mul K] [DecidableEq K] (P : Params K) (fa : FAArgs K → Except Err (Molrec K))
    (nm : Option String) (ver : Option Int) (kw : MolDict K) : Except Err (MolDict K) :=
  match fromSchema fa { schemaName := some (nm.getD "qcschema_molecule"), schemaVersion := some (ver.getD 2),
                        molecule := none, top := kw } with
  | .error e => .error e
  | .ok r => afterFromSchema P kw r

/-- `Molecule.dict()`: the set entries under their aliases — the representation itself -/
def dictOf {K : Type} (m : MolDict K) : MolDict K := m

/-- `Molecule(**d)` for any dictionary `d` (349-350: validation unless `d["validated"]` is true) -/
def rebuild {K : Type} [Mul K] [DecidableEq K] (P : Params K) (fa : FAArgs K → Except Err (Molrec K))
    (nm : Option String) (ver : Option Int) (d : MolDict K) : Except Err (MolDict K) :=
  if d.validated = some true then .ok d else construct P fa nm ver d

/-! ### the property accessors (molecule.py:449-509): defaults come back here, not in `dict()` -/

def massesR {K : Type} (massOf : String → K) (m : MolDict K) : List K :=
  match m.masses with
  | some l => l
  | none => (m.symbols.getD []).map massOf

def realR {K : Type} (m : MolDict K) : List Bool :=
  match m.real with
  | some l => l
  | none => (m.symbols.getD []).map (fun _ => true)

def atomLabelsR {K : Type} (m : MolDict K) : List String :=
  match m.atomLabels with
  | some l => l
  | none => (m.symbols.getD []).map (fun _ => "")

def fragmentsR {K : Type} (m : MolDict K) : List (List Int) :=
  match m.fragments with
  | some l => l
  | none => [arangeI (m.symbols.getD []).length]

def fragChargesR {K : Type} (zero : K) (m : MolDict K) : List K :=
  match m.fragCharges with
  | some l => l
  | none => [m.charge.getD zero]                                     -- `molecular_charge` defaults to 0.0 (188)

def fragMultsR {K : Type} (m : MolDict K) : List Int :=
  match m.fragMults with
  | some l => l
  | none => [m.mult.getD 1]                                          -- `molecular_multiplicity` defaults to 1 (189)

/-- the keys of a dictionary that are set, in `MolDict` order (for the driver) -/
def keysOf {K : Type} (m : MolDict K) : List String :=
  (if m.symbols.isSome then ["symbols"] else []) ++ (if m.geometry.isSome then ["geometry"] else []) ++
  (if m.masses.isSome then ["masses"] else []) ++ (if m.atomicNumbers.isSome then ["atomic_numbers"] else []) ++
  (if m.massNumbers.isSome then ["mass_numbers"] else []) ++ (if m.atomLabels.isSome then ["atom_labels"] else []) ++
  (if m.real.isSome then ["real"] else []) ++ (if m.name.isSome then ["name"] else []) ++
  (if m.comment.isSome then ["comment"] else []) ++ (if m.charge.isSome then ["molecular_charge"] else []) ++
  (if m.mult.isSome then ["molecular_multiplicity"] else []) ++ (if m.fragments.isSome then ["fragments"] else []) ++
  (if m.fragCharges.isSome then ["fragment_charges"] else []) ++
  (if m.fragMults.isSome then ["fragment_multiplicities"] else []) ++ (if m.fixCom.isSome then ["fix_com"] else []) ++
  (if m.fixOri.isSome then ["fix_orientation"] else []) ++ (if m.fixSym.isSome then ["fix_symmetry"] else []) ++
  (if m.connectivity.isSome then ["connectivity"] else []) ++ (if m.validated.isSome then ["validated"] else [])

/-! ### executable conditions (used as hypotheses in `Props/C09Dict.lean`, `Props/C09Hash.lean`; evaluated by the driver) -/

section
variable {K : Type} [DecidableEq K]

/-- is the mass array the array of default masses (molecule.py:1495) -/
def dfltMasses (massOf : String → K) (d : MolDict K) : Bool :=
  decide (d.masses = some ((d.symbols.getD []).map massOf))

def allReal (d : MolDict K) : Bool := (d.real.getD []).all id

def noLabels (d : MolDict K) : Bool := decide (d.atomLabels = some (List.replicate (d.symbols.getD []).length ""))

def oneFragment (d : MolDict K) : Bool := decide (d.fragments = some [arangeI (d.symbols.getD []).length])

/-- one-fragment records: `from_arrays` returned the total charge / multiplicity as the fragment's -/
def singleOkB (d : MolDict K) : Bool :=
  !(oneFragment d) || (decide (d.fragCharges = d.charge.map (fun c => [c])) && decide (d.fragMults = d.mult.map (fun m => [m])))

def optAgree {α : Type} [DecidableEq α] (caller schema : Option α) : Bool :=
  match caller with
  | none => true
  | some x => decide (schema = some x)

/-- where `_filter_defaults` dropped the schema's entry of a key `get_hash` reads and the caller spelled that key
out, the caller's entry is the one `from_schema` / `to_schema` returned (`from_arrays` keeps supplied masses, real
flags and fragment data); and the caller gave no bonds if the record has none (where the schema has the entry it
wins the merge, nothing to demand) -/
def agreesB (massOf : String → K) (kw sd : MolDict K) : Bool :=
  (!dfltMasses massOf sd || optAgree kw.masses sd.masses) && (!allReal sd || optAgree kw.real sd.real) &&
  (!oneFragment sd || optAgree kw.fragments sd.fragments) && (!oneFragment sd || optAgree kw.fragCharges sd.fragCharges) &&
  (!oneFragment sd || optAgree kw.fragMults sd.fragMults) && (sd.connectivity.isSome || kw.connectivity.isNone)

end

/-! ### the Molecule object as an in-memory value of `Model/Schema.lean` (for `hasType` / `emit`; `Props/C09Typed.lean`) -/

section
open QcelVerif.Schema

def optEntry (k : String) (v : Option Val) : List (String × Val) :=
  match v with
  | some x => [(k, x)]
  | none => []

def strArr (l : List String) : Val := .arr [l.length] (l.map Val.str)
def numArr (l : List Rat) : Val := .arr [l.length] (l.map Val.num)
def intArr (l : List Int) : Val := .arr [l.length] (l.map Val.int)
def boolArr (l : List Bool) : Val := .arr [l.length] (l.map Val.bool)
def bondVal (b : Nat × Nat × Rat) : Val := .list [.int b.1, .int b.2.1, .num b.2.2]

/-- the in-memory Molecule instance: `__dict__` entries of the set fields, by field NAME (`masses_`, …), arrays with
their shapes — as `harness/c09.py: enc_val` writes a live instance -/
def molVal (nm : Option String) (ver : Option Int) (d : MolDict Rat) (others : List (String × Val)) : Val :=
  .obj "Molecule" (
    optEntry "schema_name" (nm.map Val.str) ++ (optEntry "schema_version" (ver.map Val.int) ++
    (optEntry "validated" (d.validated.map Val.bool) ++ (optEntry "symbols" (d.symbols.map strArr) ++
    (optEntry "geometry" (d.geometry.map (fun g => Val.arr [g.length / 3, 3] (g.map Val.num))) ++
    (optEntry "name" (d.name.map Val.str) ++ (optEntry "comment" (d.comment.map Val.str) ++
    (optEntry "molecular_charge" (d.charge.map Val.num) ++ (optEntry "molecular_multiplicity" (d.mult.map Val.int) ++
    (optEntry "masses_" (d.masses.map numArr) ++ (optEntry "real_" (d.real.map boolArr) ++
    (optEntry "atom_labels_" (d.atomLabels.map strArr) ++ (optEntry "atomic_numbers_" (d.atomicNumbers.map intArr) ++
    (optEntry "mass_numbers_" (d.massNumbers.map intArr) ++
    (optEntry "connectivity_" (d.connectivity.map (fun bs => Val.list (bs.map bondVal))) ++
    (optEntry "fragments_" (d.fragments.map (fun fr => Val.list (fr.map intArr))) ++
    (optEntry "fragment_charges_" (d.fragCharges.map (fun l => Val.list (l.map Val.num))) ++
    (optEntry "fragment_multiplicities_" (d.fragMults.map (fun l => Val.list (l.map Val.int))) ++
    (optEntry "fix_com" (d.fixCom.map Val.bool) ++ (optEntry "fix_orientation" (d.fixOri.map Val.bool) ++
    (optEntry "fix_symmetry" (d.fixSym.map Val.str) ++ others)))))))))))))))))))))

end

end QcelVerif.MolDict
