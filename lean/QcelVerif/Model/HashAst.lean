import QcelVerif.Model.HashConcrete
/-!
C11 — a small abstract syntax for the FOUR code regions the hand model `Model/Hash.lean` follows, and its
evaluator.  The terms of this syntax are not written by hand: `harness/c11_src.py` reads the regions by python
`ast` on every run and emits them as `Gen/HashSrc.lean`:

  1. `float_prep`                       (qcelemental/models/molecule.py)  -> `PrepFn`
  2. `Molecule.get_hash`, `hash_fields` (molecule.py)                     -> `GetHashFn`
  3. `Molecule.__eq__`                  (molecule.py)                     -> `EqFn`
  4. the `connectivity` block of `validate_and_fill_...` in molparse/from_arrays.py -> `ConnFn`,
     and `geometry_noise = kwargs.pop(..., GEOMETRY_NOISE)` + the `float_prep(values["geometry"], geometry_noise)`
     of `Molecule.__init__`                                               -> `ConsFn`

`Props/C11Src.lean` proves, for ALL inputs, that the evaluator at the generated terms computes what the hand
model computes.  Core Lean only (the driver imports this file and runs the evaluator as the third voice).

What the evaluator takes as given (python / numpy semantics, the same as `Model/Hash.lean`): `np.around(x, k)` =
`around fl k`, `round(x, k)` = `around id k`, elementwise array statements, tuple comparison is lexicographic,
`list.sort` is a stable sort, `json.dumps` of lists/scalars as `renderList` / `showInt` / ….
-/
namespace QcelVerif.Hash.Src

/-! ## 1. `float_prep` -/

/-- the classes `isinstance` is asked about (`other` = anything else) -/
inductive PyType where
  | list | ndarray | float | int | other
  deriving DecidableEq, Repr

/-- integer expressions over the parameter `around` -/
inductive IntE where
  | lit (n : Int)
  | around
  | neg (e : IntE)
  | add (a b : IntE)
  | sub (a b : IntE)
  | mul (a b : IntE)
  deriving Repr

def IntE.eval (k : Nat) : IntE → Int
  | .lit n => n
  | .around => k
  | .neg e => -(e.eval k)
  | .add a b => a.eval k + b.eval k
  | .sub a b => a.eval k - b.eval k
  | .mul a b => a.eval k * b.eval k

/-- threshold expressions of the zero band: `base ** e` (base an int literal ≥ 2 — the translator refuses
anything else) and `c * t` / `t * c` -/
inductive ThrE where
  | pow (base : Nat) (e : IntE)
  | scale (c : IntE) (t : ThrE)
  deriving Repr

/-- the value of a threshold as the fraction `num / den` (exact; no floats) -/
def ThrE.eval (k : Nat) : ThrE → Int × Nat
  | .pow b e => if 0 ≤ e.eval k then ((b : Int) ^ (e.eval k).toNat, 1) else (1, b ^ (-(e.eval k)).toNat)
  | .scale c t => (c.eval k * (t.eval k).1, (t.eval k).2)

/-- a float on its way through `float_prep`: not yet rounded, or rounded to `k` decimals -/
inductive Val where
  | raw (x : Dbl)
  | rd (k : Nat) (r : Rd)
  deriving DecidableEq

def zeroDbl (neg : Bool) : Dbl := if neg then .negZero else .val 0

def absRat (q : Rat) : Rat := if q < 0 then -q else q

/-- one statement of a branch body of `float_prep` (the variable is always the first parameter) -/
inductive PrepStmt where
  /-- `array = np.around(array, around)` -/
  | npAround
  /-- `array[np.abs(array) < thr] = ±0` -/
  | zeroBelow (thr : ThrE) (negZero : Bool)
  /-- `array = round(array, around)` -/
  | pyRound
  /-- `if array == ±0.0: array = ±0.0` (`negZero`: the sign of the zero ASSIGNED; `==` ignores the sign of zero) -/
  | ifEqZeroSet (negZero : Bool)
  deriving Repr

/-- `|value| < thr`, exactly -/
def Val.below (k : Nat) (thr : ThrE) : Val → Bool
  | .raw x => decide (absRat x.toRat * ((thr.eval k).2 : Rat) < ((thr.eval k).1 : Rat))
  | .rd k' r => decide ((r.mag : Int) * ((thr.eval k).2 : Int) < (thr.eval k).1 * (10 : Int) ^ k')

def Val.isZero : Val → Bool
  | .raw x => decide (x.toRat = 0)
  | .rd _ r => decide (r.mag = 0)

def Val.setZero (neg : Bool) : Val → Val
  | .raw _ => .raw (zeroDbl neg)
  | .rd k _ => .rd k ⟨neg, 0⟩

def Val.toDbl : Val → Dbl
  | .raw x => x
  | .rd k r => r.toDbl k

def runStmt (fl : Rat → Rat) (k : Nat) (v : Val) : PrepStmt → Val
  | .npAround => .rd k (around fl k v.toDbl)
  | .pyRound => .rd k (around id k v.toDbl)
  | .zeroBelow thr nz => if v.below k thr then v.setZero nz else v
  | .ifEqZeroSet nz => if v.isZero then v.setZero nz else v

def runBody (fl : Rat → Rat) (k : Nat) (body : List PrepStmt) (v : Val) : Val := body.foldl (runStmt fl k) v

structure PrepBranch where
  /-- `isinstance(array, (…))` -/
  classes : List PyType
  body : List PrepStmt
  deriving Repr

/-- `float_prep`: an `if / elif` chain of `isinstance` tests in SOURCE ORDER; the final `else` raises `TypeError`;
then `return array` -/
structure PrepFn where
  branches : List PrepBranch
  deriving Repr

/-- the body `float_prep` runs for an argument of class `ty` (`none`: `TypeError`) -/
def PrepFn.body? (fn : PrepFn) (ty : PyType) : Option (List PrepStmt) :=
  (fn.branches.find? (fun b => b.classes.contains ty)).map (·.body)

/-- `float_prep(x, k)` for one entry of an array (`ty = list / ndarray`) or one scalar (`float / int`) -/
def floatPrep (fn : PrepFn) (fl : Rat → Rat) (k : Nat) (ty : PyType) (x : Dbl) : Option Val :=
  (fn.body? ty).map (fun b => runBody fl k b (.raw x))

/-! ## 2. `get_hash` -/

/-- the attribute names `hash_fields` may list (the translator refuses any other name) -/
inductive FieldName where
  | symbols | masses | molecular_charge | molecular_multiplicity | real | geometry | fragments
  | fragment_charges | fragment_multiplicities | connectivity
  deriving DecidableEq, Repr

def FieldName.toString : FieldName → String
  | .symbols => "symbols" | .masses => "masses" | .molecular_charge => "molecular_charge"
  | .molecular_multiplicity => "molecular_multiplicity" | .real => "real" | .geometry => "geometry"
  | .fragments => "fragments" | .fragment_charges => "fragment_charges"
  | .fragment_multiplicities => "fragment_multiplicities" | .connectivity => "connectivity"

/-- the module constants a `float_prep` call may name -/
inductive NoiseConst where
  | GEOMETRY_NOISE | MASS_NOISE | CHARGE_NOISE
  deriving DecidableEq, Repr

inductive FieldTest where
  /-- `field == "name"` -/
  | eq (name : FieldName)
  /-- `field in ("a", "b", …)` -/
  | isIn (names : List FieldName)
  deriving Repr

def FieldTest.holds (f : FieldName) : FieldTest → Bool
  | .eq n => f == n
  | .isIn ns => ns.contains f

/-- one `if / elif` branch of the loop body: `data = float_prep(data, CONST)` -/
structure HashBranch where
  test : FieldTest
  /-- the name written in the source -/
  const : NoiseConst
  /-- its value (module-level int constant, resolved by the translator) -/
  decimals : Nat
  deriving Repr

/-- keywords of the `json.dumps` call (any other keyword is refused by the translator) -/
structure DumpsSpec where
  sortKeys : Bool
  /-- `default=lambda x: x.ravel().tolist()` is present -/
  defaultRavelTolist : Bool
  deriving Repr

/-- `get_hash`: `m = hashlib.<digest>(); concat = ""; for field in self.hash_fields: data = getattr(self, field);
<chain>; concat += json.dumps(data, …); m.update(concat.encode(<encoding>)); return m.hexdigest()` -/
structure GetHashFn where
  fields : List FieldName
  chain : List HashBranch
  dumps : DumpsSpec
  /-- `concat.encode("utf-8")` -/
  encodingUtf8 : Bool
  /-- `hashlib.sha1()` … `.hexdigest()` -/
  digestSha1Hex : Bool
  deriving Repr

/-- the value of one attribute as `get_hash` handles it -/
inductive FieldVal where
  | strs (l : List (List Char))
  | floats (ty : PyType) (l : List Val)
  | float (v : Val)
  | int (n : Int)
  | bools (l : List Bool)
  | intss (l : List (List Int))
  | ints (l : List Int)
  | bonds (o : Option (List Bond))
  | typeError

/-- `getattr(self, field)` (the property accessors with their defaults, molecule.py:449-509 — `Model/Hash.lean`) -/
def getField (massOf : List Char → Dbl) (m : Mol) : FieldName → FieldVal
  | .symbols => .strs m.symbols
  | .masses => .floats .ndarray ((m.massesR massOf).map .raw)
  | .molecular_charge => .float (.raw m.charge)
  | .molecular_multiplicity => .int m.mult
  | .real => .bools m.realR
  | .geometry => .floats .ndarray (m.geometry.map .raw)
  | .fragments => .intss m.fragmentsR
  | .fragment_charges => .floats .list (m.fragChargesR.map .raw)
  | .fragment_multiplicities => .ints m.fragMultsR
  | .connectivity => .bonds m.connectivity

/-- `data = float_prep(data, k)` by the class of `data` -/
def applyPrep (fp : PrepFn) (fl : Rat → Rat) (k : Nat) : FieldVal → FieldVal
  | .floats ty l =>
    match fp.body? ty with
    | some b => .floats .ndarray (l.map (runBody fl k b))
    | none => .typeError
  | .float v =>
    match fp.body? .float with
    | some b => .float (runBody fl k b v)
    | none => .typeError
  | _ => .typeError

/-- the loop body up to `json.dumps`: `getattr`, then the FIRST branch of the chain whose test holds -/
def srcFieldVal {D} (fp : PrepFn) (gh : GetHashFn) (P : Params D) (m : Mol) (f : FieldName) : FieldVal :=
  match gh.chain.find? (fun b => b.test.holds f) with
  | some br => applyPrep fp P.fl br.decimals (getField P.massOf m f)
  | none => getField P.massOf m f

/-- `repr` of one float; `reprRaw` prints a double that never went through `float_prep` -/
def renderVal {D} (P : Params D) (reprRaw : Dbl → List Char) : Val → List Char
  | .raw x => reprRaw x
  | .rd k r => P.reprF k r

/-- does the value hold a numpy array (then `json.dumps` needs the `default=` hook)? -/
def FieldVal.hasNdarray : FieldVal → Bool
  | .strs _ => true
  | .floats ty _ => ty == .ndarray
  | .bools _ => true
  | .intss _ => true
  | _ => false

/-- `json.dumps(data, default=lambda x: x.ravel().tolist())` -/
def dumps {D} (P : Params D) (reprRaw : Dbl → List Char) (d : DumpsSpec) (v : FieldVal) : List Char :=
  if v.hasNdarray && !d.defaultRavelTolist then "<TypeError: ndarray is not JSON serializable>".toList
  else match v with
    | .strs l => renderList showStr l
    | .floats _ l => renderList (renderVal P reprRaw) l
    | .float x => renderVal P reprRaw x
    | .int n => showInt n
    | .bools l => renderList showBool l
    | .intss l => renderList (renderList showInt) l
    | .ints l => renderList showInt l
    | .bonds o => renderConn P.reprB o
    | .typeError => "<TypeError: float_prep>".toList

/-- the string `concat` of `get_hash`, from the source-derived terms -/
def srcPreimage {D} (fp : PrepFn) (gh : GetHashFn) (P : Params D) (reprRaw : Dbl → List Char) (m : Mol) : List Char :=
  (gh.fields.map (fun f => dumps P reprRaw gh.dumps (srcFieldVal fp gh P m f))).flatten

/-- `get_hash()` from the source-derived terms (that digest / encoding are sha1-hexdigest / utf-8 is a separate obligation) -/
def srcHash {D} (fp : PrepFn) (gh : GetHashFn) (P : Params D) (reprRaw : Dbl → List Char) (m : Mol) : D :=
  P.sha1 (srcPreimage fp gh P reprRaw m)

/-! ## 3. `__eq__` -/

inductive EqSide where
  | self | other
  deriving DecidableEq, Repr

/-- `__eq__`: `if isinstance(other, dict): other = Molecule(orient=False, **other) elif isinstance(other, Molecule): pass
else: raise TypeError; return <lhs>.<m1>() == <rhs>.<m2>()` -/
structure EqFn where
  acceptsDict : Bool
  acceptsMolecule : Bool
  lhs : EqSide
  /-- the method called on `lhs` is `get_hash` -/
  lhsGetHash : Bool
  rhs : EqSide
  rhsGetHash : Bool
  deriving Repr

/-- `a == b` for two `Molecule` objects (`none`: raises) -/
def srcMolEq {D} [DecidableEq D] (fp : PrepFn) (gh : GetHashFn) (eq : EqFn) (P : Params D) (reprRaw : Dbl → List Char)
    (a b : Mol) : Option Bool :=
  if eq.acceptsMolecule && eq.lhsGetHash && eq.rhsGetHash then
    let pick : EqSide → Mol := fun s => match s with | .self => a | .other => b
    some (decide (srcHash fp gh P reprRaw (pick eq.lhs) = srcHash fp gh P reprRaw (pick eq.rhs)))
  else none

/-! ## 4. bond canonicalisation (from_arrays.py) and construction-time rounding (`Molecule.__init__`) -/

/-- one entry `(at1, at2, bondorder)` as handed in (integral indices; a non-integral index is outside this model) -/
structure RawBond where
  at1 : Int
  at2 : Int
  order : Rat
  deriving DecidableEq

inductive IdxE where
  | at1 | at2
  | min (a b : IdxE)
  | max (a b : IdxE)
  /-- `int(e)` -/
  | int (e : IdxE)
  deriving Repr

def IdxE.eval (x : RawBond) : IdxE → Int
  | .at1 => x.at1
  | .at2 => x.at2
  | .min a b => Min.min (a.eval x) (b.eval x)
  | .max a b => Max.max (a.eval x) (b.eval x)
  | .int e => e.eval x

inductive OrdE where
  | order
  /-- `float(e)` -/
  | float (e : OrdE)
  deriving Repr

def OrdE.eval (x : RawBond) : OrdE → Rat
  | .order => x.order
  | .float e => e.eval x

/-- a validation of the loop body, each raising `ValidationError` -/
inductive BCheck where
  /-- `if not float(atN).is_integer() or atN < 0: raise` (`first`: at1, else at2) -/
  | idxBad (first : Bool)
  /-- `if bondorder < lo or bondorder > hi: raise` -/
  | orderOutside (lo hi : Int)
  deriving Repr

def BCheck.fires (x : RawBond) : BCheck → Bool
  | .idxBad first => decide ((if first then x.at1 else x.at2) < 0)
  | .orderOutside lo hi => decide (x.order < (lo : Rat)) || decide ((hi : Rat) < x.order)

/-- `conn.sort(key=…, reverse=…)`; `key = none`: the whole tuple -/
structure SortSpec where
  key : Option Nat
  reverse : Bool
  deriving Repr

def SortSpec.le (s : SortSpec) (x y : Bond) : Bool :=
  let base : Bond → Bond → Bool :=
    match s.key with
    | none => bondLe
    | some 0 => fun x y => decide (x.a ≤ y.a)
    | some 1 => fun x y => decide (x.b ≤ y.b)
    | some 2 => fun x y => decide (x.order ≤ y.order)
    | some _ => fun _ _ => true
  if s.reverse then base y x else base x y

/-- the `connectivity` block: per entry the checks IN SOURCE ORDER, then `conn.append((t1, t2, t3))`; after the
loop `conn.sort(…)` -/
structure ConnFn where
  checks : List BCheck
  t1 : IdxE
  t2 : IdxE
  t3 : OrdE
  sort : SortSpec
  deriving Repr

/-- one loop iteration; `.error i`: the `i`-th check raised -/
def connOne (c : ConnFn) (x : RawBond) : Except Nat Bond :=
  match c.checks.findIdx? (fun ch => ch.fires x) with
  | some i => .error i
  | none => .ok ⟨(c.t1.eval x).toNat, (c.t2.eval x).toNat, c.t3.eval x⟩

def connAll (c : ConnFn) : List RawBond → Except Nat (List Bond)
  | [] => .ok []
  | x :: t =>
    match connOne c x with
    | .error i => .error i
    | .ok b =>
      match connAll c t with
      | .error i => .error i
      | .ok bs => .ok (b :: bs)

/-- the stored `connectivity` -/
def srcPrepBonds (c : ConnFn) (l : List RawBond) : Except Nat (List Bond) :=
  match connAll c l with
  | .error i => .error i
  | .ok bs => .ok (sortBy c.sort.le bs)

def _root_.QcelVerif.Hash.Bond.toRaw (b : Bond) : RawBond := ⟨b.a, b.b, b.order⟩

/-- `geometry_noise = kwargs.pop(<key>, <CONST>)` … `elif <cond₁> or <cond₂>: values["geometry"] =
float_prep(values["geometry"], geometry_noise)` -/
structure ConsFn where
  /-- the constant named as the default of `kwargs.pop("geometry_noise", …)` -/
  defaultConst : NoiseConst
  /-- its value -/
  defaultNoise : Nat
  /-- `validate` is one of the names or-ed in the condition of the rounding branch -/
  prepOnValidate : Bool
  deriving Repr

/-- the hash-relevant part of a validated construction (no `geometry_noise=` keyword, `orient=False`) -/
def srcConstruct (fp : PrepFn) (cons : ConsFn) (conn : ConnFn) (fl : Rat → Rat) (m : Mol) : Option Mol :=
  let geom : Option (List Dbl) :=
    if cons.prepOnValidate then
      (fp.body? .ndarray).map (fun b => m.geometry.map (fun x => (runBody fl cons.defaultNoise b (.raw x)).toDbl))
    else some m.geometry
  let bonds : Option (Option (List Bond)) :=
    match m.connectivity with
    | none => some none
    | some l =>
      match srcPrepBonds conn (l.map Bond.toRaw) with
      | .ok bs => some (some bs)
      | .error _ => none
  match geom, bonds with
  | some g, some c => some { m with geometry := g, connectivity := c }
  | _, _ => none

end QcelVerif.Hash.Src
