import QcelVerif.Model.Compare
import QcelVerif.Model.CompareWide
/-
C19 — a small AST for the DECISION SKELETON of `qcelemental/testing.py` and its evaluator (core Lean only; the driver
imports this file).

`harness/c19_src.py` reads `_handle_return`, `compare_values`, `compare` and `_compare_recursive` by `ast` and emits
`Gen/CompareSrc.lean`: terms of the types below.  What a term records is what the source SAYS:

  * `Stmt` (compare_values / compare): the statements that can influence the returned boolean, in source order — the
    `return_handler` default, the `passnone` early return, the cast (which argument becomes `xptd` / `cptd`, when the dtype is
    complex, what the `except` returns), the shape test (operator, operands, what it returns), the `np.log10(atol)` of the
    message digits (it raises for `atol <= 0`), every `np.isclose(a, b, rtol=, atol=, equal_nan=)` call with exactly which array
    stands in which position and whether it is negated, the aggregation (`np.all`), the guard of the `equal_phase` retry, the
    `==` test of `compare` with its `try/except TypeError`, and every `return return_handler(<bool>, label, message, <flag>, <flag>)`.
    Message-only statements (string formatting) are not part of the term; the translator checks that nothing they bind flows
    back into a recorded expression.
  * `Handler`: `_handle_return` — which parameter is tested and which parameters are returned.
  * `RecProg` (`_compare_recursive`): the `isinstance` chain in source order with the action of every branch.
  * `TopProg` (`compare_recursive`, `_path_under`): the `atol` refusal, the first recursion, then the `equal_phase` and `forgive`
    stages in source order — prefix lists, the nested filtering loop (`sorted(errors)`, `_path_under` argument order, the
    `not in n_errors` guard, `errors.remove`, `break`).

The evaluator gives a term its meaning over the SAME numpy parameters the hand model uses (`flatten`, `Flat.kind`, `castF`,
`castC`, `closeR`, `closeC`, `scEq`, `Sc.negate`, `all2`, `asSeq`, `arrRows`): what is tied by `Props/C19Src.lean` is the
control skeleton (order, operands, flags, negations, aggregation, dispatch), not numpy.
-/
namespace QcelVerif.CompareAst
open QcelVerif.Compare

/-! ## compare_values / compare -/

/-- the two data parameters -/
inductive Arg where
  | expected | computed
  deriving DecidableEq, Repr

/-- the two cast arrays -/
inductive Arr where
  | xptd | cptd
  deriving DecidableEq, Repr

inductive Flag where
  | equalNan | equalPhase | passnone
  deriving DecidableEq, Repr

/-- a boolean option as it is written at the use site: the parameter, or a literal -/
inductive FlagE where
  | param (f : Flag)
  | lit (b : Bool)
  deriving DecidableEq, Repr

inductive Tol where
  | atol | rtol
  deriving DecidableEq, Repr

/-- `xptd`, `cptd`, `-xptd`, `-cptd` -/
structure Opnd where
  arr : Arr
  neg : Bool
  deriving DecidableEq, Repr

inductive Test where
  /-- `np.isclose(x, y, rtol=rt, atol=at, equal_nan=en)`: `x` is the FIRST positional argument (the tolerance scales with `|y|`) -/
  | isclose (x y : Opnd) (rt at_ : Tol) (en : FlagE)
  /-- `np.asarray(l == r)` -/
  | eq (l r : Opnd)
  deriving DecidableEq, Repr

/-- `bool(np.all(t))` / `bool(t.all())`, or `any` -/
inductive Agg where
  | all | any
  deriving DecidableEq, Repr

inductive CmpOp where
  | ne | eq | lt | le | gt | ge
  deriving DecidableEq, Repr

inductive Cond where
  | flag (f : FlagE)
  | isNone (a : Arg)                       -- `a is None`
  | shape (op : CmpOp) (l r : Arr)         -- `l.shape <op> r.shape`
  | allclose                               -- the local `allclose`
  | hasNeg (a : Arr)                       -- `hasattr(a, "__neg__")`
  | not (c : Cond)
  | and (a b : Cond)
  | or (a b : Cond)
  deriving DecidableEq, Repr

inductive BoolE where
  | lit (b : Bool)
  | allclose
  deriving DecidableEq, Repr

/-- the two reporting parameters -/
inductive RepParam where
  | returnMessage | quiet
  deriving DecidableEq, Repr

/-- `return return_handler(value, label, <message>, msgArg, quietArg)` -/
structure RetCall where
  value : BoolE
  msgArg : RepParam
  quietArg : RepParam
  deriving DecidableEq, Repr

inductive Stmt where
  /-- `if return_handler is None: return_handler = _handle_return` -/
  | defaultHandler
  /-- `if c: return return_handler(...)` (nested `if`s without `else` are a conjunction) -/
  | ifReturn (c : Cond) (r : RetCall)
  /-- `dtype = complex if (np.iscomplexobj(a) for some a in complexIf) else float`;
      `try: xptd, cptd = np.array(xFrom, dtype=dtype), np.array(cFrom, dtype=dtype)  except Exception: return onFail` -/
  | castFloat (complexIf : List Arg) (xFrom cFrom : Arg) (onFail : RetCall)
  /-- `try: xptd, cptd = np.array(xFrom), np.array(cFrom)  except Exception: return onFail` -/
  | castPlain (xFrom cFrom : Arg) (onFail : RetCall)
  /-- `abs(int(np.log10(t)))` (message digits): raises unless `t > 0` -/
  | log10 (t : Tol)
  /-- `isclose = <t>; allclose = bool(np.<g>(isclose))` -/
  | setAll (t : Test) (g : Agg)
  /-- `if c: [try:] n_isclose = <t> [except TypeError: pass else:] allclose = bool(np.<g>(n_isclose))` -/
  | ifSetAll (c : Cond) (t : Test) (g : Agg) (catchTypeError : Bool)
  /-- `return return_handler(...)` -/
  | ret (r : RetCall)
  deriving DecidableEq, Repr

/-- parameters of `_handle_return(passfail, label, message, return_message, quiet)` by position -/
inductive HParam where
  | passfail | label | message | returnMessage | quiet
  deriving DecidableEq, Repr

/-- `if <test>: return <tupleFst>, <tupleSnd>  else: return <plain>` (the logging block before it returns nothing) -/
structure Handler where
  test : HParam
  tupleFst : HParam
  tupleSnd : HParam
  plain : HParam
  deriving DecidableEq, Repr

/-! ### evaluation -/

/-- what a call of the translated function does -/
inductive Out where
  | ret (r : Ret)
  | raised              -- an exception leaves the function
  | unmodelled          -- the numpy parameter gives no answer here (ragged, mixed text/number, broadcasting)
  | illFormed           -- the term is not a runnable skeleton (local used before assignment, no `return`, `None` called)
  deriving DecidableEq, Repr

def pick (a : Arg) (e c : Tree) : Tree :=
  match a with
  | .expected => e
  | .computed => c

def flagVal (o : VOpts) : FlagE → Bool
  | .lit b => b
  | .param .equalNan => o.equalNan
  | .param .equalPhase => o.equalPhase
  | .param .passnone => o.passnone

def tolVal (o : VOpts) : Tol → Rat
  | .atol => o.atol
  | .rtol => o.rtol

def repVal (r : Reporting) : RepParam → Bool
  | .returnMessage => r.returnMessage
  | .quiet => r.quiet

/-- the pair `xptd, cptd` after the cast: shapes and flat data -/
inductive Data where
  | real (shX shC : List Nat) (x c : List XR)
  | cplx (shX shC : List Nat) (x c : List Cx)
  | exact (shX shC : List Nat) (kX kC : Kind) (x c : List Sc)
  deriving Repr

def Data.shape : Data → Arr → List Nat
  | .real sx _ _ _, .xptd | .cplx sx _ _ _, .xptd | .exact sx _ _ _ _ _, .xptd => sx
  | .real _ sc _ _, .cptd | .cplx _ sc _ _, .cptd | .exact _ sc _ _ _ _, .cptd => sc

structure St where
  data : Option Data := none
  allclose : Option Bool := none
  handlerSet : Bool := false

/-- tuple comparison of two shapes: only `!=` / `==` are given a meaning -/
def cmpShape (op : CmpOp) (a b : List Nat) : Option Bool :=
  match op with
  | .ne => some (a != b)
  | .eq => some (a == b)
  | _ => none

def cmpNat (op : CmpOp) (a b : Nat) : Bool :=
  match op with
  | .ne => a != b
  | .eq => a == b
  | .lt => decide (a < b)
  | .le => decide (a ≤ b)
  | .gt => decide (a > b)
  | .ge => decide (a ≥ b)

def evalCond (o : VOpts) (e c : Tree) (st : St) : Cond → Option Bool
  | .flag f => some (flagVal o f)
  | .isNone a => some (isNone (pick a e c))
  | .shape op l r =>
    match st.data with
    | none => none
    | some d => cmpShape op (d.shape l) (d.shape r)
  | .allclose => st.allclose
  | .hasNeg _ =>
    match st.data with
    | none => none
    | some _ => some true                     -- every ndarray has `__neg__`
  | .not a => (evalCond o e c st a).map (!·)
  | .and a b =>
    match evalCond o e c st a with
    | some true => evalCond o e c st b         -- short circuit
    | r => r
  | .or a b =>
    match evalCond o e c st a with
    | some false => evalCond o e c st b
    | r => r

def any2 {α : Type} (f : α → α → Bool) : List α → List α → Bool
  | a :: as, b :: bs => f a b || any2 f as bs
  | _, _ => false

def agg {α : Type} (g : Agg) (f : α → α → Bool) (as bs : List α) : Bool :=
  match g with
  | .all => all2 f as bs
  | .any => any2 f as bs

def sel {α : Type} (a : Arr) (x c : List α) : List α :=
  match a with
  | .xptd => x
  | .cptd => c

def negIf {α : Type} (neg : α → α) (b : Bool) (l : List α) : List α := if b then l.map neg else l

inductive TestRes where
  | val (b : Bool)
  | typeError
  | unmodelled
  | illFormed

/-- the operand of an exact (`==`) test: unary minus raises TypeError on bool / str / object arrays -/
def opndExact (p : Opnd) (kX kC : Kind) (x c : List Sc) : Option (List Sc) :=
  if p.neg then
    (if (match p.arr with | .xptd => kX | .cptd => kC).negatable then some ((sel p.arr x c).map Sc.negate) else none)
  else some (sel p.arr x c)

def evalTest (o : VOpts) (st : St) (t : Test) (g : Agg) : TestRes :=
  match st.data with
  | none => .illFormed
  | some d =>
    if d.shape .xptd ≠ d.shape .cptd then .unmodelled else       -- broadcasting is not modelled
    match t, d with
    | .isclose x y rt at_ en, .real _ _ xs cs =>
      .val (agg g (closeR (tolVal o at_) (tolVal o rt) (flagVal o en)) (negIf XR.neg x.neg (sel x.arr xs cs)) (negIf XR.neg y.neg (sel y.arr xs cs)))
    | .isclose x y rt at_ en, .cplx _ _ xs cs =>
      .val (agg g (closeC (tolVal o at_) (tolVal o rt) (flagVal o en)) (negIf Cx.neg x.neg (sel x.arr xs cs)) (negIf Cx.neg y.neg (sel y.arr xs cs)))
    | .isclose .., .exact .. => .unmodelled
    | .eq l r, .exact _ _ kX kC xs cs =>
      match opndExact l kX kC xs cs, opndExact r kX kC xs cs with
      | some a, some b => .val (agg g scEq a b)
      | _, _ => .typeError
    | .eq .., _ => .unmodelled

/-- `_handle_return(v, label, message, m, q)` -/
def hBool (v m q : Bool) : HParam → Option Bool
  | .passfail => some v
  | .returnMessage => some m
  | .quiet => some q
  | _ => none

def evalHandler (h : Handler) (v m q : Bool) : Option Ret :=
  match hBool v m q h.test with
  | none => none
  | some true => (hBool v m q h.tupleFst).map Ret.withMessage
  | some false => (hBool v m q h.plain).map Ret.plain

def boolEVal (st : St) : BoolE → Option Bool
  | .lit b => some b
  | .allclose => st.allclose

def callHandler (h : Handler) (rep : Reporting) (st : St) (r : RetCall) : Out :=
  match boolEVal st r.value with
  | none => .illFormed
  | some v =>
    if rep.customHandler then .ret (.handled v)          -- a caller-supplied handler receives the boolean first
    else if !st.handlerSet then .illFormed               -- `None(...)`
    else
      match evalHandler h v (repVal rep r.msgArg) (repVal rep r.quietArg) with
      | some x => .ret x
      | none => .illFormed

inductive CastRes where
  | unmodelled
  | failed
  | ok (d : Data)

def argKindIs (k : Kind) (fe fc : Flat) : Arg → Bool
  | .expected => fe.kind == some k
  | .computed => fc.kind == some k

/-- `np.array(., dtype=float|complex)` on both arguments -/
def castFloatPair (complexIf : List Arg) (xFrom cFrom : Arg) (e c : Tree) : CastRes :=
  match flatten e, flatten c with
  | .unmodelled, _ | _, .unmodelled => .unmodelled
  | .notArrayLike, _ | _, .notArrayLike => .failed
  | .ok fe, .ok fc =>
    match fe.kind, fc.kind with
    | none, _ | _, none => .unmodelled
    | some _, some _ =>
      let fx := match xFrom with | .expected => fe | .computed => fc
      let fy := match cFrom with | .expected => fe | .computed => fc
      if complexIf.any (argKindIs .cpx fe fc) then
        match fx.data.mapM castC, fy.data.mapM castC with
        | some xs, some cs => .ok (.cplx fx.shape fy.shape xs cs)
        | _, _ => .failed
      else
        match fx.data.mapM castF, fy.data.mapM castF with
        | some xs, some cs => .ok (.real fx.shape fy.shape xs cs)
        | _, _ => .failed

/-- `np.array(.)` on both arguments (inside the model's scope it never raises) -/
def castPlainPair (xFrom cFrom : Arg) (e c : Tree) : CastRes :=
  match flatten e, flatten c with
  | .ok fe, .ok fc =>
    match fe.kind, fc.kind with
    | some ke, some kc =>
      let fx := match xFrom with | .expected => fe | .computed => fc
      let fy := match cFrom with | .expected => fe | .computed => fc
      let kx := match xFrom with | .expected => ke | .computed => kc
      let ky := match cFrom with | .expected => ke | .computed => kc
      .ok (.exact fx.shape fy.shape kx ky fx.data fy.data)
    | _, _ => .unmodelled
  | _, _ => .unmodelled

def evalStmts (h : Handler) (rep : Reporting) (o : VOpts) (e c : Tree) : List Stmt → St → Out
  | [], _ => .illFormed
  | .defaultHandler :: rest, st => evalStmts h rep o e c rest { st with handlerSet := true }
  | .ifReturn cnd r :: rest, st =>
    match evalCond o e c st cnd with
    | none => .illFormed
    | some true => callHandler h rep st r
    | some false => evalStmts h rep o e c rest st
  | .castFloat cif xf cf onFail :: rest, st =>
    match castFloatPair cif xf cf e c with
    | .unmodelled => .unmodelled
    | .failed => callHandler h rep st onFail
    | .ok d => evalStmts h rep o e c rest { st with data := some d }
  | .castPlain xf cf onFail :: rest, st =>
    match castPlainPair xf cf e c with
    | .unmodelled => .unmodelled
    | .failed => callHandler h rep st onFail
    | .ok d => evalStmts h rep o e c rest { st with data := some d }
  | .log10 t :: rest, st => if tolVal o t ≤ 0 then .raised else evalStmts h rep o e c rest st
  | .setAll t g :: rest, st =>
    match evalTest o st t g with
    | .val b => evalStmts h rep o e c rest { st with allclose := some b }
    | .typeError => .raised
    | .unmodelled => .unmodelled
    | .illFormed => .illFormed
  | .ifSetAll cnd t g catchTE :: rest, st =>
    match evalCond o e c st cnd with
    | none => .illFormed
    | some false => evalStmts h rep o e c rest st
    | some true =>
      match evalTest o st t g with
      | .val b => evalStmts h rep o e c rest { st with allclose := some b }
      | .typeError => if catchTE then evalStmts h rep o e c rest st else .raised
      | .unmodelled => .unmodelled
      | .illFormed => .illFormed
  | .ret r :: _, st => callHandler h rep st r

/-- a call of the translated function -/
def evalFn (prog : List Stmt) (h : Handler) (rep : Reporting) (o : VOpts) (e c : Tree) : Out :=
  evalStmts h rep o e c prog {}

/-- the boolean inside what the caller receives -/
def Out.verdict? : Out → Option Bool
  | .ret r => some r.passfail
  | _ => none

/-- how an answer of the hand model reads as an outcome of a call -/
def liftRes (rep : Reporting) : Res → Out
  | .verdict b => .ret (report rep b)
  | .raised _ => .raised
  | .unmodelled => .unmodelled

/-! ## `_compare_recursive` -/

inductive TyTag where
  | str | int | bool | complex | npBool | list | tuple | bytes | dict | float | npNumber | ndarray | noneType | baseModel
  deriving DecidableEq, Repr

/-- `isinstance(tree, ty)` for the values of the model (Python's subclass relations: `bool` is an `int`; `np.float64` is a
    `float`, `np.complex128` a `complex`, both and `np.int64` are `np.number`; `np.bool_` is neither an `int` nor a
    `np.number`; `Tree.list` stands for list and tuple; models entered the tree as dicts) -/
def instOf : Tree → TyTag → Bool
  | .sc .none, t => t == .noneType
  | .sc (.bool _), t => t == .bool || t == .int
  | .sc (.int _), t => t == .int
  | .sc (.flt _), t => t == .float
  | .sc (.cpx _), t => t == .complex
  | .sc (.str _), t => t == .str
  | .sc (.npflt _), t => t == .float || t == .npNumber
  | .sc (.npint _), t => t == .npNumber
  | .sc (.npbool _), t => t == .npBool
  | .sc (.npcpx _), t => t == .complex || t == .npNumber
  | .list _, t => t == .list || t == .tuple
  | .dict _, t => t == .dict
  | .arr _ _ _, t => t == .ndarray

inductive Guard where
  | inst (a : Arg) (tys : List TyTag)
  | notInst (a : Arg) (tys : List TyTag)
  | and (g h : Guard)
  deriving DecidableEq, Repr

def Guard.holds (e c : Tree) : Guard → Bool
  | .inst a tys => tys.any (instOf (pick a e c))
  | .notInst a tys => !tys.any (instOf (pick a e c))
  | .and g h => g.holds e c && h.holds e c

/-- the `equal_phase=` keyword of a nested call: the function's own parameter, or a literal -/
inductive PhE where
  | param
  | lit (b : Bool)
  deriving DecidableEq, Repr

def phVal (o : ROpts) : PhE → Bool
  | .param => o.phase
  | .lit b => b

/-- what a branch of the chain does; `tag` numbers the message as `Model/Compare.lean` does
    (0 extra keys, 1 missing keys, 2 value mismatch, 3 length / no `__len__`, 4 arrays differ, 5 None, 6 type not understood,
    7 not a dict, 8 not a list or array) -/
inductive Act where
  /-- `mismatch = bool(l != r)` `[except ValueError: mismatch = True]`; `if mismatch: errors.append` -/
  | exactNe (l r : Arg) (catchValueError : Bool) (tag : Nat)
  /-- `errors.append((name, <message>))` -/
  | entry (tag : Nat)
  /-- `try: if len(l) <op> len(r): append lenTag  else: for i, item1, item2 in zip(range(len(l)), zipL, zipR): extend(recurse(item1, item2))`
      `except TypeError: append noLenTag`; `rec` = the roles the zipped items take in the nested call -/
  | listWalk (op : CmpOp) (l r : Arg) (lenTag noLenTag : Nat) (rec : Arg × Arg)
  /-- `a = x.keys() - y.keys()` … each with its `if len(a): append(tag)`, in source order;
      `for k in p.keys() & q.keys(): extend(recurse(s[k], t[k]))` -/
  | dictWalk (diffs : List ((Arg × Arg) × Nat)) (inter : Arg × Arg) (rec : Arg × Arg)
  /-- `passfail, msg = compare_values(ve, vc, atol=atol, rtol=rtol, equal_phase=ph, return_message=True, quiet=True)`; `if not passfail: append` -/
  | values (ve vc : Arg) (ph : PhE) (tag : Nat)
  /-- `compare(xe, xc, equal_phase=ph, return_message=True, quiet=True)` likewise -/
  | exactCmp (xe xc : Arg) (ph : PhE) (tag : Nat)
  /-- `if np.issubdtype(dt.dtype, np.floating): compare_values(ve, vc, …) else: compare(xe, xc, …)`; `if not passfail: append` -/
  | arrLeaf (dt : Arg) (ve vc : Arg) (vph : PhE) (xe xc : Arg) (xph : PhE) (tag : Nat)
  /-- `if l is not r: append` -/
  | noneLeaf (l r : Arg) (tag : Nat)
  deriving DecidableEq, Repr

structure RecProg where
  /-- `if isinstance(a, BaseModel): a = a.dict()` for these arguments, before the chain (models are dict trees in the model) -/
  modelToDict : List Arg
  /-- the `if / elif` chain, in source order -/
  branches : List (Guard × Act)
  /-- the final `else: errors.append(...)` -/
  fallTag : Nat
  deriving DecidableEq, Repr

def selectAct (e c : Tree) : List (Guard × Act) → Option Act
  | [] => none
  | (g, a) :: rest => if g.holds e c then some a else selectAct e c rest

/-- truth value of the element-wise `!=` over all elements; without the `except ValueError` a size ≠ 1 lets the exception
    escape `_compare_recursive` — no error list exists then, which `ItemW.unmodelled` stands for -/
def sizeRuleT (catchVE : Bool) (tag : Nat) (name : String) (s : Sc) (data : List Sc) : List ItemW :=
  match data with
  | [t] => if scEq s t then [] else [.err ⟨name, tag⟩]
  | _ => if catchVE then [.err ⟨name, tag⟩] else [.unmodelled]

/-- `exactLeafW` with the tag and the `except ValueError` as parameters -/
def exactLeafT (catchVE : Bool) (tag : Nat) (name : String) (s : Sc) : Tree → List ItemW
  | .sc t => if scEq s t then [] else [.err ⟨name, tag⟩]
  | .list l =>
    if s.isNumpy then
      match flatten (.list l) with
      | .ok f => sizeRuleT catchVE tag name s f.data
      | .unmodelled => if catchVE then [.err ⟨name, tag⟩] else [.unmodelled]
      | .notArrayLike => [.unmodelled]
    else [.err ⟨name, tag⟩]
  | .dict _ => [.err ⟨name, tag⟩]
  | .arr _ _ fl => sizeRuleT catchVE tag name s fl

def isEC (p : Arg × Arg) : Bool := p.1 == .expected && p.2 == .computed
def isECorCE (p : Arg × Arg) : Bool := p.1 != p.2

/-- the branches that do not recurse -/
def evalLeaf (o : ROpts) (name : String) (e c : Tree) : Act → List ItemW
  | .entry tag => [.err ⟨name, tag⟩]
  | .exactNe l r catchVE tag =>
    if isECorCE (l, r) then                       -- `!=` is symmetric
      match e with
      | .sc s => exactLeafT catchVE tag name s c
      | _ => [.unmodelled]
    else [.unmodelled]
  | .values ve vc ph tag =>
    verdictOfW name tag (compareValuesW ⟨o.atol, o.rtol, false, phVal o ph, false⟩ (pick ve e c) (pick vc e c))
  | .exactCmp xe xc ph tag => verdictOfW name tag (compareExactW (phVal o ph) (pick xe e c) (pick xc e c))
  | .arrLeaf dt ve vc vph xe xc xph tag =>
    match pick dt e c with
    | .arr k _ _ =>
      if k = .flt then verdictOfW name tag (compareValuesW ⟨o.atol, o.rtol, false, phVal o vph, false⟩ (pick ve e c) (pick vc e c))
      else verdictOfW name tag (compareExactW (phVal o xph) (pick xe e c) (pick xc e c))
    | _ => [.unmodelled]                          -- `.dtype` of something else
  | .noneLeaf l r tag =>
    if isECorCE (l, r) then
      (if isNone e then (if isNone c then [] else [.err ⟨name, tag⟩]) else [.unmodelled])   -- identity of non-None objects: not modelled
    else [.unmodelled]
  | .listWalk .. => [.unmodelled]                 -- `len()` / `zip` of a value that is not a list in the model
  | .dictWalk .. => [.unmodelled]

def keysDiff (a b : List (String × Tree)) : Bool := a.any (fun p => !hasKey p.1 b)

def pickKV (a : Arg) (ekv ckv : List (String × Tree)) : List (String × Tree) :=
  match a with
  | .expected => ekv
  | .computed => ckv

/-- one entry per non-empty key-set difference, in source order -/
def keyEntries (name : String) (ekv ckv : List (String × Tree)) : List ((Arg × Arg) × Nat) → List ItemW
  | [] => []
  | (d, tag) :: rest =>
    (if keysDiff (pickKV d.1 ekv ckv) (pickKV d.2 ekv ckv) then [.err ⟨name, tag⟩] else []) ++ keyEntries name ekv ckv rest

def pickLen (a : Arg) (es cs : List Tree) : Nat :=
  match a with
  | .expected => es.length
  | .computed => cs.length

mutual
/-- `_compare_recursive(expected, computed, atol, rtol, _prefix=name, equal_phase=phase)` as the translated chain says -/
def evalRec (p : RecProg) (o : ROpts) (name : String) : Tree → Tree → List ItemW
  | .list es, c =>
    match selectAct (.list es) c p.branches with
    | none => [.err ⟨name, p.fallTag⟩]
    | some (.listWalk op l r lenTag noLenTag rc) =>
      if !isEC rc then [.unmodelled] else
      match asSeq c with
      | none => [.err ⟨name, noLenTag⟩]                                   -- TypeError from `len()`
      | some cs =>
        if cmpNat op (pickLen l es cs) (pickLen r es cs) then [.err ⟨name, lenTag⟩]
        else evalList p o name 0 es cs                                     -- `zip` stops at the shorter one
    | some a => evalLeaf o name (.list es) c a
  | .dict ekv, c =>
    match selectAct (.dict ekv) c p.branches with
    | none => [.err ⟨name, p.fallTag⟩]
    | some (.dictWalk diffs inter rc) =>
      if !(isEC rc && isECorCE inter) then [.unmodelled] else
      match c with
      | .dict ckv => keyEntries name ekv ckv diffs ++ evalDict p o name ekv ckv
      | _ => [.unmodelled]                                                 -- `.keys()` of a non-dict
    | some a => evalLeaf o name (.dict ekv) c a
  | .sc s, c =>
    match selectAct (.sc s) c p.branches with
    | none => [.err ⟨name, p.fallTag⟩]
    | some a => evalLeaf o name (.sc s) c a
  | .arr k sh fl, c =>
    match selectAct (.arr k sh fl) c p.branches with
    | none => [.err ⟨name, p.fallTag⟩]
    | some a => evalLeaf o name (.arr k sh fl) c a
def evalList (p : RecProg) (o : ROpts) (name : String) : Nat → List Tree → List Tree → List ItemW
  | i, e :: es, c :: cs => evalRec p o (name ++ "." ++ toString i) e c ++ evalList p o name (i + 1) es cs
  | _, _, _ => []
def evalDict (p : RecProg) (o : ROpts) (name : String) : List (String × Tree) → List (String × Tree) → List ItemW
  | [], _ => []
  | (k, e) :: rest, ckv =>
    (match lookup k ckv with
     | some c => evalRec p o (name ++ "." ++ k) e c
     | none => [])
    ++ evalDict p o name rest ckv
end

/-- `compareRecursiveW` with its per-node recursion as a parameter (the hand transcription of compare_recursive's stages;
    `Props/C19Src.lean` proves the translated stages `evalTop` equal to it) -/
def compareRecursiveVia (rec : ROpts → String → Tree → Tree → List ItemW)
    (atol rtol : Rat) (forgive : Option (List String)) (phase : PhaseOpt) (e c : Tree) : Res :=
  if 1 ≤ atol then .raised .valueError else
  let items := rec ⟨atol, rtol, false⟩ "root" e c
  if items.contains .unmodelled then .unmodelled else
  let errors := errsOfW items
  let nitems := rec ⟨atol, rtol, true⟩ "root" e c
  if (!errors.isEmpty && phase.truthy) && nitems.contains .unmodelled then .unmodelled else
  match phaseStage phase ((errsOfW nitems).map Err.name) errors with
  | none => .raised .valueError
  | some errors =>
    match forgiveStage forgive errors with
    | none => .raised .valueError
    | some errors => .verdict errors.isEmpty

/-! ## `compare_recursive`: the top-level stages -/

/-- `[(x if x.startswith(test) else add + x) for x in <the parameter>]` -/
structure Rootify where
  test : String
  add : String
  deriving DecidableEq, Repr

/-- the list of prefixes a filtering loop runs over -/
inductive PList where
  | empty                      -- `[]`
  | errorNames                 -- `list(dict(errors).keys())`
  | rootified (r : Rootify)
  deriving DecidableEq, Repr

/-- `_path_under(path, prefix)`: `[path == prefix or] path.startswith(prefix + sep)` -/
structure Under where
  orEq : Bool
  sep : String
  deriving DecidableEq, Repr

/-- `for nomatch in sorted(errors): for p in <prefixes> or []: if _path_under(nomatch[0], p): [if nomatch[0] not in n_errors:] … errors.remove(nomatch); break` -/
structure FilterLoop where
  overSorted : Bool            -- the outer loop runs over `sorted(errors)` (a copy), not over `errors` itself
  pathFirst : Bool             -- `_path_under(nomatch[0], p)`: the entry's name is the path, the listed item the prefix
  notInSecond : Bool           -- the removal is guarded by `nomatch[0] not in n_errors`
  remove : Bool                -- `errors.remove(nomatch)`
  brk : Bool                   -- `break` after the removal
  deriving DecidableEq, Repr

/-- `_compare_recursive(e, c, atol=atol, rtol=rtol[, equal_phase=<literal>])` -/
structure RecCall where
  e : Arg
  c : Arg
  phase : Option Bool
  deriving DecidableEq, Repr

inductive Stage where
  /-- `if errors and equal_phase:` second recursion, the three-way choice of the prefix list on `equal_phase is False / is True / else`, the loop -/
  | phase (second : RecCall) (onFalse onTrue otherwise : PList) (loop : FilterLoop)
  /-- `if forgive is None: … else: …`, the loop -/
  | forgive (onNone otherwise : PList) (loop : FilterLoop)
  deriving DecidableEq, Repr

structure TopProg where
  refuseOp : CmpOp             -- `if atol <op> <bound>: raise ValueError`
  refuseBound : Int
  first : RecCall
  stages : List Stage          -- in source order
  under : Under                -- `_path_under`
  deriving DecidableEq, Repr

def cmpRat (op : CmpOp) (a b : Rat) : Bool :=
  match op with
  | .ne => a != b
  | .eq => a == b
  | .lt => decide (a < b)
  | .le => decide (a ≤ b)
  | .gt => decide (b < a)
  | .ge => decide (b ≤ a)

def underG (u : Under) (path pfx : String) : Bool := (u.orEq && path == pfx) || startsWith path (pfx ++ u.sep)

def rootifyG (r : Rootify) (s : String) : String := if startsWith s r.test then s else r.add ++ s

def plist (errors : List Err) (given : List String) : PList → List String
  | .empty => []
  | .errorNames => dedupNames errors []
  | .rootified r => given.map (rootifyG r)

/-- the inner loop over the prefixes for one entry `nm`; `none` = `list.remove` raised ValueError -/
def removeForG (brk remove : Bool) (hit : String → Bool) (nm : Err) : List String → List Err → Option (List Err)
  | [], errs => some errs
  | p :: ps, errs =>
    if hit p then
      if remove then
        (if errs.contains nm then
          (if brk then some (errs.erase nm) else removeForG brk remove hit nm ps (errs.erase nm))
         else none)
      else if brk then some errs else removeForG brk remove hit nm ps errs
    else removeForG brk remove hit nm ps errs

def removeLoopG (brk remove : Bool) (cond : Err → String → Bool) (prefixes : List String) : List Err → List Err → Option (List Err)
  | [], errs => some errs
  | nm :: rest, errs =>
    match removeForG brk remove (cond nm) nm prefixes errs with
    | none => none
    | some errs' => removeLoopG brk remove cond prefixes rest errs'

/-- outer `none`: the loop mutates the list it iterates over (not modelled) -/
def filterLoopG (fl : FilterLoop) (u : Under) (nnames : List String) (prefixes : List String) (errors : List Err) : Option (Option (List Err)) :=
  if !fl.overSorted then none else
  some (removeLoopG fl.brk fl.remove
    (fun nm p => (if fl.pathFirst then underG u nm.name p else underG u p nm.name) && (!fl.notInSecond || !nnames.contains nm.name))
    prefixes (errors.mergeSort Err.le) errors)

def phasePrefixes (phase : PhaseOpt) (errors : List Err) (onFalse onTrue otherwise : PList) : List String :=
  match phase with
  | .off => plist errors [] onFalse
  | .all => plist errors [] onTrue
  | .paths l => plist errors l otherwise

def forgivePrefixes (forgive : Option (List String)) (errors : List Err) (onNone otherwise : PList) : List String :=
  match forgive with
  | none => plist errors [] onNone
  | some l => plist errors l otherwise

def RecCall.isEC (r : RecCall) (ph : Option Bool) : Bool := r.e == .expected && r.c == .computed && r.phase == ph

def evalStages (u : Under) (rec : ROpts → String → Tree → Tree → List ItemW) (atol rtol : Rat) (forgive : Option (List String))
    (phase : PhaseOpt) (e c : Tree) : List Stage → List Err → Res
  | [], errors => .verdict errors.isEmpty                       -- `len(ret_msg_str) == 0`: two non-empty lines per remaining entry
  | .phase second onFalse onTrue otherwise loop :: rest, errors =>
    if !errors.isEmpty && phase.truthy then
      if !second.isEC (some true) then .unmodelled else
      let nitems := rec ⟨atol, rtol, true⟩ "root" e c
      if nitems.contains .unmodelled then .unmodelled else
      match filterLoopG loop u ((errsOfW nitems).map Err.name) (phasePrefixes phase errors onFalse onTrue otherwise) errors with
      | none => .unmodelled
      | some none => .raised .valueError
      | some (some errs) => evalStages u rec atol rtol forgive phase e c rest errs
    else evalStages u rec atol rtol forgive phase e c rest errors
  | .forgive onNone otherwise loop :: rest, errors =>
    match filterLoopG loop u [] (forgivePrefixes forgive errors onNone otherwise) errors with
    | none => .unmodelled
    | some none => .raised .valueError
    | some (some errs) => evalStages u rec atol rtol forgive phase e c rest errs

/-- `compare_recursive(expected, computed, atol=, rtol=, forgive=, equal_phase=)` as the translated stages say, over the per-node recursion `rec` -/
def evalTop (t : TopProg) (rec : ROpts → String → Tree → Tree → List ItemW)
    (atol rtol : Rat) (forgive : Option (List String)) (phase : PhaseOpt) (e c : Tree) : Res :=
  if cmpRat t.refuseOp atol (t.refuseBound : Rat) then .raised .valueError else
  if !t.first.isEC none then .unmodelled else
  let items := rec ⟨atol, rtol, false⟩ "root" e c
  if items.contains .unmodelled then .unmodelled else
  evalStages t.under rec atol rtol forgive phase e c t.stages (errsOfW items)

/-- does an outcome of a translated helper say what the hand model says? (used by the driver's three-way check) -/
def Out.agrees (hand : Res) : Out → Bool
  | .ret r => hand == .verdict r.passfail
  | .raised => match hand with | .raised _ => true | _ => false
  | .unmodelled => hand == .unmodelled
  | .illFormed => false

end QcelVerif.CompareAst
