import QcelVerif.Model.OrientAst
import QcelVerif.Gen.OrientSrc
/-!
# C16 — the orientation code regenerated from `molecule.py`, executed at `ℚ`

`Gen/OrientSrc.lean` (rewritten by `harness/c16_src.py` on every run) is evaluated with the evaluator of `Model/OrientAst.lean`
over core `Rat`.  Mathlib-free: the driver imports it; `Props/C16Src.lean` proves `ratOps = fieldOps ℚ`, so the theorems there
are about exactly the functions below.
-/
namespace QcelVerif.OrientSrc
open QcelVerif.OrientAst

/-- the scalar operations of `ℚ` (core `Rat`) -/
def ratOps : Ops Rat where
  add := (· + ·)
  sub := (· - ·)
  mul := (· * ·)
  div := (· / ·)
  abs := fun a => if a < 0 then -a else a
  ofInt := fun i => (i : Rat)
  lt := fun a b => decide (a < b)
  le := fun a b => decide (a ≤ b)
  eqb := fun a b => decide (a = b)

/-- source-derived: the vector subtracted by the centring statement -/
def srcCentre (ms : List Rat) (xs : List (P3 Rat)) : Except Err (P3 Rat) :=
  evalCentre ratOps ms xs Gen.OrientSrc.orient.centre

/-- source-derived: the tensor handed to `np.linalg.eigh` -/
def srcTensor (ms : List Rat) (xs : List (P3 Rat)) : Except Err (T3 Rat) :=
  evalTensorStage ratOps Gen.OrientSrc.orient ms xs

/-- source-derived: `new_geometry` right after `new_geometry = np.dot(new_geometry, evecs)` -/
def srcRotated (ms : List Rat) (xs : List (P3 Rat)) (V : T3 Rat) : Except Err (List (P3 Rat)) :=
  match centred ratOps Gen.OrientSrc.orient ms xs with
  | .ok gc => evalRot ratOps Gen.OrientSrc.orient gc V
  | .error e => .error e

/-- source-derived: the returned `new_geometry` -/
def srcOrient (ms : List Rat) (xs : List (P3 Rat)) (V : T3 Rat) : Except Err (List (P3 Rat)) :=
  evalAfterEigh ratOps Gen.OrientSrc.orient ms xs V

/-- source-derived `geom_noise` -/
def srcNoiseQ : Rat := noiseOf ratOps Gen.OrientSrc.orient

/-- round to the nearest integer, ties to even (`np.rint`), over core `Rat` -/
def rintQ (t : Rat) : Int :=
  let f := Rat.floor t
  let r := t - (f : Rat)
  if r < 1 / 2 then f
  else if 1 / 2 < r then f + 1
  else if f % 2 = 0 then f else f + 1

/-- source-derived `float_prep(·, d)` of one entry (as a rational) -/
def srcPrep (d : Nat) (v : Rat) : Rat := evalPrep ratOps rintQ Gen.OrientSrc.prep d v

end QcelVerif.OrientSrc
