import QcelVerif.Model.Kabsch
/-!
# C12 (uniqueness clause) — definitions: cross product, non-collinearity and its exact margin

`NonCollinear c` : two of the position vectors of `c` are not parallel (`a × b ≠ 0`).  For a geometry centred at
its centroid (`centre g`) this is "the molecule is not collinear" (`Props/C12Unique.lean`,
`nonCollinear_iff_not_onLine`, `nonCollinear_centre_iff`).

`maxCross2 c` : the largest `|a × b|²` over all pairs of position vectors — the exact *margin* of non-collinearity
that the driver evaluates at `K = ℚ` on the very doubles of a case (`Driver/C12.lean`, op `N`) and that
`harness/c12.py` uses to decide on which inputs recovery of the applied rotation and shift is demanded.
Only `Model/Kabsch.lean` is imported (no further Mathlib module), because the driver imports this file.
-/
namespace QcelVerif.Kabsch
variable {K : Type}

section Ring
variable [CommRing K]

/-- `a × b` -/
def V3.cross (a b : V3 K) : V3 K :=
  ⟨a.y * b.z - a.z * b.y, a.z * b.x - a.x * b.z, a.x * b.y - a.y * b.x⟩

/-- `|a × b|²` -/
def cross2 (a b : V3 K) : K := (V3.cross a b).nrm2

/-- two of the position vectors are not parallel -/
def NonCollinear (c : List (V3 K)) : Prop := ∃ a ∈ c, ∃ b ∈ c, V3.cross a b ≠ V3.zero

/-- all position vectors lie on one line through the origin (direction `d`; `d = 0` forces all of them to be `0`,
    which lies on every line) -/
def OnLine (c : List (V3 K)) : Prop := ∃ d : V3 K, ∀ a ∈ c, ∃ t : K, a = V3.smul t d

/-- all atoms of an (uncentred) geometry lie on one line through the point `p` -/
def OnLineThrough (p : V3 K) (g : List (V3 K)) : Prop :=
  ∃ d : V3 K, ∀ a ∈ g, ∃ t : K, a = p.add (V3.smul t d)

end Ring

section Ordered
variable [Field K] [LinearOrder K]

/-- quantified non-collinearity: two position vectors with `|a × b|² ≥ m` -/
def NonCollinearBy (m : K) (c : List (V3 K)) : Prop := ∃ a ∈ c, ∃ b ∈ c, m ≤ cross2 a b

/-- `max_b |a × b|²` over the atoms `b` of `l` (0 for the empty list) -/
def maxCrossWith (a : V3 K) : List (V3 K) → K
  | [] => 0
  | b :: t => max (cross2 a b) (maxCrossWith a t)

/-- `max_{i<j} |c_i × c_j|²` (0 for fewer than two atoms) -/
def maxCross2 : List (V3 K) → K
  | [] => 0
  | a :: t => max (maxCrossWith a t) (maxCross2 t)

/-- argmax bookkeeping for the driver's report (value, i, j); the *value* the harness uses is `maxCross2`, the
    indices are re-verified exactly by the harness (`|c_i × c_j|²` recomputed as a fraction must equal it) -/
def argCrossWith (a : V3 K) (i : Nat) : Nat → List (V3 K) → (K × Nat × Nat) → (K × Nat × Nat)
  | _, [], best => best
  | j, b :: t, best =>
    let v := cross2 a b
    argCrossWith a i (j + 1) t (if best.1 < v then (v, i, j) else best)

def argCross2 : Nat → List (V3 K) → (K × Nat × Nat) → (K × Nat × Nat)
  | _, [], best => best
  | i, a :: t, best => argCross2 (i + 1) t (argCrossWith a i (i + 1) t best)

/-- the exact margin of a geometry as the harness asks for it: centre at the centroid, then `maxCross2` -/
def collinearityMargin (g : List (V3 K)) : K := maxCross2 (centre g)

end Ordered

end QcelVerif.Kabsch
