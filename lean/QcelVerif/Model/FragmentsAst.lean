/-!
# A small statement / expression AST for the bodies of `Molecule.get_fragment`, `Molecule.nelectrons`,
`Molecule.nuclear_repulsion_energy` and `molecular_formula_from_symbols` (property C15), with its evaluator.

`harness/c15_src.py` reads `qcelemental/models/molecule.py` (the three methods, located by name) and
`qcelemental/molutil/molecular_formula.py` with Python's `ast` on every run and emits their bodies, statement by
statement, as terms of the types below into `Gen/FragmentsSrc.lean`.  Core Lean only (the driver imports this file).

Values.  A Python value of these bodies is one of
* `.s x`  — an `int`, a `bool` (`True` = 1, `False` = 0: `bool` is a subclass of `int`) or `None` (`x = none`);
* `.l xs` — a list / 1-d array of such scalars;
* `.ll xss` — a list of lists.
The per-atom arrays `self.symbols`, `self.masses`, `self.geometry` are *references*: the evaluator is run with these
three inputs bound to `[0, 1, …, n-1]`, so `self.symbols[idx]` evaluates to `idx` when `idx < n` (IndexError otherwise) and
`self.geometry[[i, j, …]]` (fancy indexing) to `[i, j, …]`: the lists the evaluator returns for `symbols`, `masses`, `geometry`
are lists of parent-atom indices.
`none` of the evaluator = "Python raises here" (IndexError, TypeError, the `raise` of the source, `np.vstack([])`,
a failing `assert`) or an operation on value shapes the bodies never produce (nothing is defaulted).  Negative indices
(Python would wrap around) are outside the scope: they evaluate to `none`.
Local variables and inputs are numbered slots; the generated file says which name has which number.

The nuclear repulsion accumulator lives in an arbitrary `K` (`Add Mul Div Zero IntCast`), the distance
`np.linalg.norm(self.geometry[a] - self.geometry[b])` is a parameter `dist a b` — exactly as in `Model/Fragments.lean`.
-/
namespace QcelVerif.FragAst

inductive Val where
  | s (x : Option Int)
  | l (xs : List (Option Int))
  | ll (xss : List (List (Option Int)))
  deriving Repr, DecidableEq, Inhabited

def b2v (b : Bool) : Val := .s (some (if b then 1 else 0))

/-- Python truthiness -/
def Val.truthy : Val → Bool
  | .s none => false
  | .s (some i) => i != 0
  | .l xs => !xs.isEmpty
  | .ll xss => !xss.isEmpty

/-- the items a `for` loop walks over -/
def Val.items : Val → Option (List Val)
  | .s _ => none
  | .l xs => some (xs.map .s)
  | .ll xss => some (xss.map .l)

/-- `l[i]`, no negative indices -/
def nth? {α} (l : List α) (i : Int) : Option α := if 0 ≤ i then l[i.toNat]? else none

/-- one index of a fancy-indexing list: `xs[k]`; `None` is not an index -/
def fancy {α} (xs : List α) : Option Int → Option α
  | some k => nth? xs k
  | none => none

/-- `sum(list)`; `None` entries raise -/
def osum : List (Option Int) → Option Int
  | [] => some 0
  | none :: _ => none
  | some x :: t => (osum t).map (x + ·)

/-- all-or-nothing map -/
def mapO {α β} (f : α → Option β) : List α → Option (List β)
  | [] => some []
  | a :: t => match f a with
    | none => none
    | some b => (mapO f t).map (b :: ·)

/-- comprehension with a filter: `[body(a) for a in l if cond(a)]` -/
def compO {α} (cond : α → Option Bool) (body : α → Option (Option Int)) : List α → Option (List (Option Int))
  | [] => some []
  | a :: t => match cond a with
    | none => none
    | some false => compO cond body t
    | some true => match body a with
      | none => none
      | some b => (compO cond body t).map (b :: ·)

/-- `enumerate` -/
def enumFrom' {α} : Nat → List α → List (Nat × α)
  | _, [] => []
  | n, a :: t => (n, a) :: enumFrom' (n + 1) t

def foldO {σ α} (f : σ → α → Option σ) : σ → List α → Option σ
  | s, [] => some s
  | s, a :: t => match f s a with
    | none => none
    | some s' => foldO f s' t

inductive Expr where
  | int (i : Int)                      -- int literal; `True` = 1, `False` = 0
  | none                               -- `None`
  | nil                                -- `[]`
  | var (k : Nat)                      -- local variable / parameter (slot)
  | inp (k : Nat)                      -- `self.<attribute>` (input slot, read-only)
  | add (a b : Expr)                   -- int + int, list + list (concatenation)
  | sub (a b : Expr)
  | mul (a b : Expr)                   -- int * int, `[x, …] * n`
  | len (a : Expr)                     -- `len(a)`, `a.shape[0]`
  | idx (a i : Expr)                   -- `a[i]`: i an int -> element; i a list -> fancy indexing (1-d `a`)
  | slice (a hi : Expr)                -- `a[:hi]`
  | range (lo hi : Expr)               -- `range(lo, hi)` / `list(range(lo, hi))`
  | isIn (x l : Expr)                  -- `x in l`
  | or_ (a b : Expr)                   -- `a or b`  (truth value; lazy)
  | and_ (a b : Expr)                  -- `a and b` (truth value; lazy)
  | not_ (a : Expr)
  | isNone (a : Expr)                  -- `a is None`
  | isInt (a : Expr)                   -- `isinstance(a, int)`
  | anyCommon (a b : Expr)             -- `len(set(a) & set(b))` read as a truth value
  | sum (a : Expr)                     -- `sum(a)`
  | list1 (a : Expr)                   -- `[a]`
  | comp (body : Expr) (x : Nat) (src cond : Expr)           -- `[body for x in src if cond]` (also a generator)
  | zipComp (body : Expr) (x y : Nat) (s1 s2 : Expr)         -- `[body for x, y in zip(s1, s2)]`
  | enumComp (body : Expr) (i x : Nat) (src cond : Expr)     -- `[body for i, x in enumerate(src) if cond]`
  | vstack (a : Expr)                  -- `np.vstack(blocks)`: rows and (k, 3) blocks flattened to rows; `[]` raises
  deriving Repr, DecidableEq, Inhabited

/-- K-valued expressions (the nuclear repulsion accumulator) -/
inductive KExpr where
  | zero                               -- `0.0`
  | var (k : Nat)                      -- K-valued local
  | ofInt (e : Expr)                   -- an int expression used as a float
  | add (a b : KExpr)
  | mul (a b : KExpr)
  | div (a b : KExpr)
  | dist (a b : Expr)                  -- `np.linalg.norm(self.geometry[a] - self.geometry[b])`
  deriving Repr, DecidableEq, Inhabited

inductive Stmt where
  | skip
  | seq (a b : Stmt)
  | set (k : Nat) (e : Expr)           -- `x = e`, `constructor_dict["…"] = e`, `return e` (slot 0)
  | append (k : Nat) (e : Expr)        -- `x.append(e)`
  | addAssign (k : Nat) (e : Expr)     -- `x += e`
  | setIdx (k : Nat) (i e : Expr)      -- `x[i] = e`
  | forIn (x : Nat) (src : Expr) (body : Stmt)          -- `for x in src:`
  | forEnum (i x : Nat) (src : Expr) (body : Stmt)      -- `for i, x in enumerate(src):`
  | ite (c : Expr) (t e : Stmt)
  | raise (tag : Nat)                  -- `raise …`
  | assert_ (c : Expr)
  | kset (k : Nat) (e : KExpr)         -- K-valued `x = e`
  | kadd (k : Nat) (e : KExpr)         -- K-valued `x += e`
  deriving Repr, DecidableEq, Inhabited

/-! ## expressions -/

def setSlot (v : List Val) (k : Nat) (a : Val) : List Val := v.set k a

def evalE (inp : List Val) : List Val → Expr → Option Val
  | _, .int i => some (.s (some i))
  | _, .none => some (.s none)
  | _, .nil => some (.l [])
  | v, .var k => v[k]?
  | _, .inp k => inp[k]?
  | v, .add a b =>
    match evalE inp v a, evalE inp v b with
    | some (.s (some x)), some (.s (some y)) => some (.s (some (x + y)))
    | some (.l xs), some (.l ys) => some (.l (xs ++ ys))
    | some (.ll xs), some (.ll ys) => some (.ll (xs ++ ys))
    | _, _ => none
  | v, .sub a b =>
    match evalE inp v a, evalE inp v b with
    | some (.s (some x)), some (.s (some y)) => some (.s (some (x - y)))
    | _, _ => none
  | v, .mul a b =>
    match evalE inp v a, evalE inp v b with
    | some (.s (some x)), some (.s (some y)) => some (.s (some (x * y)))
    | some (.l xs), some (.s (some n)) => some (.l (List.replicate n.toNat xs).flatten)
    | _, _ => none
  | v, .len a =>
    match evalE inp v a with
    | some (.l xs) => some (.s (some (xs.length : Nat)))
    | some (.ll xs) => some (.s (some (xs.length : Nat)))
    | _ => none
  | v, .idx a i =>
    match evalE inp v a, evalE inp v i with
    | some (.l xs), some (.s (some k)) => (nth? xs k).map .s
    | some (.ll xss), some (.s (some k)) => (nth? xss k).map .l
    | some (.l xs), some (.l ks) =>
        (mapO (fancy xs) ks).map .l
    | _, _ => none
  | v, .slice a hi =>
    match evalE inp v a, evalE inp v hi with
    | some (.l xs), some (.s (some h)) => if 0 ≤ h then some (.l (xs.take h.toNat)) else none
    | _, _ => none
  | v, .range lo hi =>
    match evalE inp v lo, evalE inp v hi with
    | some (.s (some a)), some (.s (some b)) =>
        some (.l ((List.range (b - a).toNat).map (fun (k : Nat) => some (a + (k : Int)))))
    | _, _ => none
  | v, .isIn x l =>
    match evalE inp v x, evalE inp v l with
    | some (.s a), some (.l xs) => some (b2v (xs.contains a))
    | some (.s _), some (.ll _) => some (b2v false)          -- a scalar never equals a list
    | _, _ => none
  | v, .or_ a b =>
    match evalE inp v a with
    | some x => if x.truthy then some (b2v true) else (evalE inp v b).map (fun y => b2v y.truthy)
    | none => none
  | v, .and_ a b =>
    match evalE inp v a with
    | some x => if x.truthy then (evalE inp v b).map (fun y => b2v y.truthy) else some (b2v false)
    | none => none
  | v, .not_ a => (evalE inp v a).map (fun x => b2v (!x.truthy))
  | v, .isNone a => (evalE inp v a).map (fun x => b2v (x == .s none))
  | v, .isInt a =>
    (evalE inp v a).map (fun x => match x with
      | .s (some _) => b2v true
      | _ => b2v false)
  | v, .anyCommon a b =>
    match evalE inp v a, evalE inp v b with
    | some (.l xs), some (.l ys) => some (b2v (xs.any (ys.contains ·)))
    | _, _ => none
  | v, .sum a =>
    match evalE inp v a with
    | some (.l xs) => (osum xs).map (fun t => .s (some t))
    | _ => none
  | v, .list1 a =>
    match evalE inp v a with
    | some (.s x) => some (.l [x])
    | some (.l xs) => some (.ll [xs])
    | _ => none
  | v, .comp body x src cond =>
    match evalE inp v src with
    | some (.l xs) =>
        (compO (fun a => (evalE inp (setSlot v x (.s a)) cond).map Val.truthy)
               (fun a => match evalE inp (setSlot v x (.s a)) body with
                  | some (.s r) => some r
                  | _ => Option.none) xs).map .l
    | _ => none
  | v, .zipComp body x y s1 s2 =>
    match evalE inp v s1, evalE inp v s2 with
    | some (.l xs), some (.l ys) =>
        (mapO (fun (p : Option Int × Option Int) =>
            match evalE inp (setSlot (setSlot v x (.s p.1)) y (.s p.2)) body with
            | some (.s r) => some r
            | _ => Option.none) (xs.zip ys)).map .l
    | _, _ => none
  | v, .enumComp body i x src cond =>
    match evalE inp v src with
    | some (.l xs) =>
        (compO (fun (p : Nat × Option Int) =>
                  (evalE inp (setSlot (setSlot v i (.s (some (p.1 : Nat)))) x (.s p.2)) cond).map Val.truthy)
               (fun (p : Nat × Option Int) =>
                  match evalE inp (setSlot (setSlot v i (.s (some (p.1 : Nat)))) x (.s p.2)) body with
                  | some (.s r) => some r
                  | _ => Option.none) (enumFrom' 0 xs)).map .l
    | _ => none
  | v, .vstack a =>
    match evalE inp v a with
    | some (.l []) => none                 -- ValueError: need at least one array to concatenate
    | some (.l xs) => some (.l xs)
    | some (.ll xss) => some (.l xss.flatten)
    | _ => none

/-! ## statements -/

structure St (K : Type) where
  v : List Val
  k : List K

/-- `x.append(a)`; the empty list literal is also the empty list of lists -/
def appendVal : Val → Val → Option Val
  | .l xs, .s a => some (.l (xs ++ [a]))
  | .l [], .l ys => some (.ll [ys])
  | .ll xss, .l ys => some (.ll (xss ++ [ys]))
  | _, _ => none

section exec
variable {K : Type} [Add K] [Mul K] [Div K] [Zero K] [IntCast K]

def evalK (inp : List Val) (dist : Nat → Nat → K) (st : St K) : KExpr → Option K
  | .zero => some 0
  | .var k => st.k[k]?
  | .ofInt e =>
    match evalE inp st.v e with
    | some (.s (some i)) => some ((i : Int) : K)
    | _ => none
  | .add a b =>
    match evalK inp dist st a, evalK inp dist st b with
    | some x, some y => some (x + y)
    | _, _ => none
  | .mul a b =>
    match evalK inp dist st a, evalK inp dist st b with
    | some x, some y => some (x * y)
    | _, _ => none
  | .div a b =>
    match evalK inp dist st a, evalK inp dist st b with
    | some x, some y => some (x / y)
    | _, _ => none
  | .dist a b =>
    match evalE inp st.v a, evalE inp st.v b with
    | some (.s (some i)), some (.s (some j)) => if 0 ≤ i ∧ 0 ≤ j then some (dist i.toNat j.toNat) else none
    | _, _ => none

def exec (inp : List Val) (dist : Nat → Nat → K) : Stmt → St K → Option (St K)
  | .skip, st => some st
  | .seq a b, st =>
    match exec inp dist a st with
    | some st' => exec inp dist b st'
    | none => none
  | .set k e, st =>
    match evalE inp st.v e with
    | some a => if k < st.v.length then some { st with v := setSlot st.v k a } else none
    | none => none
  | .append k e, st =>
    match st.v[k]?, evalE inp st.v e with
    | some t, some a => (appendVal t a).map (fun r => { st with v := setSlot st.v k r })
    | _, _ => none
  | .addAssign k e, st =>
    match st.v[k]?, evalE inp st.v e with
    | some (.s (some x)), some (.s (some y)) => some { st with v := setSlot st.v k (.s (some (x + y))) }
    | _, _ => none
  | .setIdx k i e, st =>
    match st.v[k]?, evalE inp st.v i, evalE inp st.v e with
    | some (.l xs), some (.s (some j)), some (.s a) =>
        if 0 ≤ j ∧ j.toNat < xs.length then some { st with v := setSlot st.v k (.l (xs.set j.toNat a)) } else none
    | _, _, _ => none
  | .forIn x src body, st =>
    match (evalE inp st.v src).bind Val.items with
    | some items =>
        if x < st.v.length then
          foldO (fun st a => exec inp dist body { st with v := setSlot st.v x a }) st items
        else none
    | none => none
  | .forEnum i x src body, st =>
    match (evalE inp st.v src).bind Val.items with
    | some items =>
        if i < st.v.length ∧ x < st.v.length then
          foldO (fun st (p : Nat × Val) =>
            exec inp dist body { st with v := setSlot (setSlot st.v i (.s (some (p.1 : Nat)))) x p.2 }) st
            (enumFrom' 0 items)
        else none
    | none => none
  | .ite c t e, st =>
    match evalE inp st.v c with
    | some x => if x.truthy then exec inp dist t st else exec inp dist e st
    | none => none
  | .raise _, _ => none
  | .assert_ c, st =>
    match evalE inp st.v c with
    | some x => if x.truthy then some st else none
    | none => none
  | .kset k e, st =>
    match evalK inp dist st e with
    | some a => if k < st.k.length then some { st with k := st.k.set k a } else none
    | none => none
  | .kadd k e, st =>
    match st.k[k]?, evalK inp dist st e with
    | some x, some a => some { st with k := st.k.set k (x + a) }
    | _, _ => none

/-- run a body from fresh locals (`nv` value slots all `None`, `nk` K slots all 0), parameters preset -/
def run (inp : List Val) (dist : Nat → Nat → K) (nv nk : Nat) (params : List (Nat × Val)) (body : Stmt) : Option (St K) :=
  exec inp dist body
    { v := params.foldl (fun v p => setSlot v p.1 p.2) (List.replicate nv (.s none)), k := List.replicate nk 0 }

end exec

/-! ## the formula function `molecular_formula_from_symbols` (strings)

Its body is translated into the record below: the `sorted(count.keys())` of a `collections.Counter` of the title-cased symbols
is fixed by the statement shapes the translator checks; the *rearrangement* statements between the sort and the output loop
and the *output loop body* are terms. -/

inductive FCond where
  | orderIs (s : String)               -- `order == "…"`
  | has (s : String)                   -- `"…" in element_order`
  | and_ (a b : FCond)
  | or_ (a b : FCond)
  | not_ (a : FCond)
  deriving Repr, DecidableEq, Inhabited

inductive FStmt where
  | toFront (s : String)               -- `element_order.insert(0, element_order.pop(element_order.index("…")))`
  | ite (c : FCond) (t e : List FStmt)
  deriving Repr, Inhabited

/-- one statement of the output loop `for k in element_order:` with `c = count[k]` -/
inductive FOut where
  | key                                -- `ret.append(k)`
  | countIfGt (n : Nat)                -- `if c > n: ret.append(str(c))`
  | count                              -- `ret.append(str(c))`
  deriving Repr, DecidableEq, Inhabited

def evalFC (order : String) (o : List String) : FCond → Bool
  | .orderIs s => order == s
  | .has s => o.contains s
  | .and_ a b => evalFC order o a && evalFC order o b
  | .or_ a b => evalFC order o a || evalFC order o b
  | .not_ a => !evalFC order o a

mutual
def execF (order : String) : FStmt → List String → Option (List String)
  | .toFront s, o => if o.contains s then some (s :: o.erase s) else none    -- `.index` raises ValueError
  | .ite c t e, o => if evalFC order o c then execFs order t o else execFs order e o
def execFs (order : String) : List FStmt → List String → Option (List String)
  | [], o => some o
  | s :: t, o =>
    match execF order s o with
    | some o' => execFs order t o'
    | none => none
end

def outPiece (k : String) (c : Nat) : FOut → String
  | .key => k
  | .countIfGt n => if c > n then toString c else ""
  | .count => toString c

/-- `"".join(ret)` after the output loop -/
def renderF (outs : List FOut) (keys : List String) (count : String → Nat) : String :=
  String.join (keys.map (fun k => String.join (outs.map (outPiece k (count k)))))

end QcelVerif.FragAst
