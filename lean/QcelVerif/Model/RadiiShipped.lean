import QcelVerif.Model.Radii
import QcelVerif.Model.PTShipped
import QcelVerif.Gen.Radii
/-! The shipped radius sets (generated from `/repo` on every run) pushed through the load model. -/
namespace QcelVerif.Radii
open QcelVerif

/-- `CovalentRadii("ALVAREZ2008").cr` (`none` = the load raises) -/
def covLoaded : Option Table := loadCov Gen.Radii.covUnits Gen.Radii.covDoi Gen.Radii.covRows
/-- `VanderWaalsRadii("MANTINA2009").vdwr` -/
def vdwLoaded : Option Table := loadVdw Gen.Radii.vdwUnits Gen.Radii.vdwDoi Gen.Radii.vdwRows

def cov : Table := covLoaded.getD []
def vdw : Table := vdwLoaded.getD []

end QcelVerif.Radii
