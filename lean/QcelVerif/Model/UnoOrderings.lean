import QcelVerif.Model.B787
import QcelVerif.Model.AssignCert
/-!
# C12 — model of B787's DEFAULT atom-ordering search `algorithm='hungarian_uno'` (core Lean only)

`_plausible_atom_orderings(ref, current, rgeom, cgeom, algorithm='hungarian_uno', uno_cutoff)`
(qcelemental/molutil/align.py:296-431), stage by stage:

* align.py:318-328  `where` / `cwhere` / `connect`: the atoms are split into classes by their label; class `k`
  couples the reference positions `rgp = where[k]` with the concern positions `cgp = cwhere[k]`
  (`B787.firstSeen`, `B787.positions` — shared with the `permutative` model).
* align.py:408-414  `ccnremat = 1/distance_matrix(cgeom, cgeom)` with the infinite diagonal set to 0 (same for `R`).
  Distances need square roots, so the two reciprocal-distance matrices are INPUTS of the model (`nR`, `nC`).
* align.py:359-367  the class cost matrix handed to the solver (`classCost`): rows = concern atoms of the class,
  columns = reference atoms of the class,
      `cost[i, j] = (sumCC[i] − sumRR[j])²`,  `sumCC[i] = 100 · Σ_{x ∈ cgp} ccnremat[x, cgp[i]]`
  i.e. the only geometric invariant that enters is, per atom, the sum of reciprocal distances to the OTHER ATOMS OF
  ITS OWN CLASS ("headless NRE" of the class).  There is no `np.around` on this path; the only tolerance is
  `uno_cutoff`.
* align.py:375  `linear_sum_assignment(cost, return_cost=True)` — the Hungarian solver is property C14's subject.
  Here its reduced matrix `red` is an INPUT (captured per call); `Assign.certOK` is what C14 proves about it.
* align.py:386  `edges = np.argwhere(reducedcost < uno_cutoff)` (`zeroEdges`, row-major like `argwhere`).
* align.py:387  `uno(edges, ptsCR)` (qcelemental/util/gph_uno_bipartite.py) enumerates all perfect matchings of
  that bipartite graph.  The model does not mimic Uno's algorithm, only its output SET: `matchings` is a plain
  recursive enumeration (column by column, rows not used yet).
* align.py:392-400  a matching, sorted by reference column, read as concern rows `subans`, becomes
  `ans = cgp[subans]` (`filterUno`).
* align.py:426-431  product over the classes and assembly into one atom ordering (`B787.product`, `B787.assemble`).
-/
namespace QcelVerif.Uno

open QcelVerif.B787 (firstSeen positions product assemble Err)

/-- a matrix accessed as a function (as in `Model/AssignCert.lean`) -/
abbrev Mat := Nat → Nat → Rat

/-- `reducedcost[i, j] < uno_cutoff` (align.py:386) -/
def edgeB (red : Mat) (cut : Rat) (i j : Nat) : Bool := decide (red i j < cut)

/-- `np.argwhere(reducedcost < uno_cutoff)` for a `k × k` matrix: (row, column) pairs in row-major order -/
def zeroEdges (k : Nat) (red : Mat) (cut : Rat) : List (Nat × Nat) :=
  (List.range k).flatMap fun i => ((List.range k).filter fun j => edgeB red cut i j).map fun j => (i, j)

/-- all ways to give the `k` columns `j, j+1, …, j+k-1` pairwise different rows out of `avail`, every chosen
    (row, column) being an edge.  A selection is the list of chosen rows, in column order. -/
def enumFrom (E : Nat → Nat → Bool) : Nat → Nat → List Nat → List (List Nat)
  | 0, _, _ => [[]]
  | k + 1, j, avail =>
    (avail.filter fun i => E i j).flatMap fun i => (enumFrom E k (j + 1) (avail.erase i)).map fun r => i :: r

/-- the perfect matchings of the bipartite graph `E` on `k` rows × `k` columns; a matching is written as
    `sub` with `sub[j]` = the row matched to column `j` (the `subans` of align.py:395) -/
def matchings (k : Nat) (E : Nat → Nat → Bool) : List (List Nat) := enumFrom E k 0 (List.range k)

/-- `sumCC[i]` / `sumRR[j]` for the atom `a` of the class `gp` (align.py:360-363):
    `100 · Σ_{x ∈ gp} nre[x, a]` (`np.sum(submat, axis=0)` sums over the rows of the class sub-matrix) -/
def classSum (nre : Mat) (gp : List Nat) (a : Nat) : Rat := 100 * (gp.map fun x => nre x a).sum

/-- the cost matrix handed to `linear_sum_assignment` for one class (align.py:364-367):
    rows = concern atoms `cgp`, columns = reference atoms `rgp` -/
def classCost (nR nC : Mat) (rgp cgp : List Nat) : Mat := fun i j =>
  let d := classSum nC cgp (cgp.getD i 0) - classSum nR rgp (rgp.getD j 0)
  d * d

/-- `filter_hungarian_uno(rgp, cgp)` downstream of the solver (align.py:386-400): the orderings of the class's
    concern atoms, one per perfect matching of the zero-edge graph -/
def filterUno (cut : Rat) (red : Mat) (cgp : List Nat) : List (List Nat) :=
  (matchings cgp.length (edgeB red cut)).map fun sub => sub.map fun i => cgp.getD i 0

/-- `_plausible_atom_orderings(ref, current, …, algorithm='hungarian_uno', uno_cutoff=cut)` given, per class (in
    order of first appearance in `ref`), the reduced matrix the solver returned.  A missing matrix is an error of
    the caller (`none` → no candidates for that class is NOT assumed: the driver refuses such input). -/
def candidatesUno (cut : Rat) (ref cur : List Nat) (reds : List Mat) : Except Err (List (List Nat)) :=
  if !(ref.isPerm cur) then .error .validation
  else
    let keys := firstSeen ref
    let wheres := keys.map (fun k => positions k ref)
    let gens := (keys.zip reds).map (fun kr => filterUno cut kr.2 (positions kr.1 cur))
    .ok ((product gens).filterMap (fun cpmut => assemble ref.length (wheres.zip cpmut)))

/-- a list-of-rows matrix as a function; entries outside the stored shape read as 0 — callers check the shape
    first (`isSquare`) -/
def matOf (rows : List (List Rat)) : Mat := fun i j => (rows.getD i []).getD j 0

def isSquare (k : Nat) (rows : List (List Rat)) : Bool := rows.length == k && rows.all (fun r => r.length == k)

end QcelVerif.Uno
