/-
Vocabulary of the *generated* description of the result models (C20): what
`harness/c20_spec.py:gen_result_spec` reads from qcelemental/models/results.py, procedures.py and
common_models.py of the working tree (by `ast`) and prints into `Gen/ResultSpec.lean`.  Core Lean only; imports
nothing, so that the generated file depends on no hand-written model.

The translator reports *what the text says*: the declared annotation / `shape=` / `units=` of every field, the
decorator lists of every validator together with the reshape target obtained by symbolically evaluating the
validator body for each attached field name, and the branch taken by every protocol enum member.  All
interpretation (which declared shape demands which rule, what a rule does to a shape) is done in Lean
(`Props/C20Spec.lean`) where it can be read next to the theorems.
-/
namespace QcelVerif.ResultSpec

/-- an entry of a declared `shape=[...]` -/
inductive DeclDim where
  | lit (n : Nat)          -- `3`
  | sym (s : String)       -- `"nao"`, `"nmo"`
  deriving Repr, DecidableEq

/-- the annotation of a field, as far as the translator classifies it -/
inductive Kind where
  | float | int | bool | str
  | array                  -- `Array[float]`
  | model (cls : String)   -- a nested model, e.g. `BasisSet`
  | other (txt : String)
  deriving Repr, DecidableEq

structure FieldDecl where
  name : String
  kind : Kind
  optional : Bool
  shape : Option (List DeclDim)   -- `Field(..., shape=[...])`
  units : Option String           -- `Field(..., units="...")`
  deriving Repr, DecidableEq

/-- one dimension of a reshape target, as the validator body computes it -/
inductive Dim where
  | lit (n : Nat)
  | natom                  -- `values.get("calcinfo_natom")`
  | natom3                 -- `3 * nat`
  | nbf                    -- `values.get("basis").nbf`
  | any                    -- `-1`
  | isqrt                  -- `int(v.size ** 0.5)`
  | other (txt : String)
  deriving Repr, DecidableEq

/-- what the validator does when the `values` entry its target needs is missing -/
inductive Guard where
  | free                   -- needs nothing from `values`
  | needs                  -- `if x is None: raise ValueError`
  | skips                  -- `if x is None: return v`
  deriving Repr, DecidableEq

/-- the effect of a validator on one of the fields it is attached to -/
inductive Rule where
  | reshape (dims : List Dim) (g : Guard)   -- `np.asarray(v).reshape(dims)` / `v.shape = dims`
  | targetExists                            -- `if values.get(v) is None: raise`
  | identity                                -- returns `v`
  | other (txt : String)
  deriving Repr, DecidableEq

structure ValidatorDecl where
  name : String
  pre : Bool
  always : Bool
  rules : List (String × Rule)   -- decorator arguments in order, each with the rule evaluated for that name
  deriving Repr, DecidableEq

/-- a branch of `_wavefunction_protocol` / `_native_file_protocol` -/
inductive KeepSpec where
  | keepAll
  | dropAll
  | keep (names : List String)
  | raises
  deriving Repr, DecidableEq

/-- a branch of `_trajectory_protocol`: Python indices (`0`, `-1`) kept when `len(v) > n` -/
inductive TrajSpec where
  | keepAll
  | dropAll
  | ifLonger (n : Nat) (idx : List Int)
  | raises
  deriving Repr, DecidableEq

/-! ### lookups (first match) -/

def lookup {β : Type} (l : List (String × β)) (k : String) : Option β :=
  match l.find? (fun e => e.1 == k) with
  | some e => some e.2
  | none => none

def findField (fs : List FieldDecl) (n : String) : Option FieldDecl := fs.find? (fun f => f.name == n)

/-- all rules attached to field `n`, over all validators, in class order -/
def rulesOn (vs : List ValidatorDecl) (n : String) : List Rule :=
  vs.foldr (fun v acc => ((v.rules.filter (fun e => e.1 == n)).map (·.2)) ++ acc) []

def isArray (f : FieldDecl) : Bool := f.kind == .array
def isStr (f : FieldDecl) : Bool := f.kind == .str

end QcelVerif.ResultSpec
