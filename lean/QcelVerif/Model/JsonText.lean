import QcelVerif.Model.Serialize
/-!
C10 — the JSON *text* layer: what `json.dumps(data, cls=JSON[Ext]ArrayEncoder)` writes (serialization.py:172,225:
no `indent`, no `separators`, no `ensure_ascii`, no `allow_nan` keyword → CPython defaults: item separator `", "`,
key separator `": "`, `ensure_ascii=True`, `allow_nan=True`) and what `json.loads(text[, object_hook=…])` reads
(serialization.py:187,241; pydantic's `json.loads` for `parse_raw(encoding="json")`).  Core Lean only.

* `JV`            JSON value trees: null / bool / int (unbounded) / float64 (8 bytes big-endian) / str (Unicode scalar
                  values = Lean `Char`; Python's lone surrogates are outside the modelled range) / array / object
                  (pairs in insertion order, str keys).
* `FloatCodec`    the two third-party float functions the text depends on, as PARAMETERS: `reprF` = `float.__repr__`
                  of a finite double (shortest round-tripping decimal), `parseF` = `float(token)`.  Everything proved
                  needs of them only `floatOk` of the floats that occur (a decidable per-value statement the driver
                  evaluates on every float it prints); `Model/JsonFloat.lean` has the concrete instance.
* `printV`        json/encoder.py: `c_make_encoder` / `_make_iterencode` + `py_encode_basestring_ascii` + `floatstr`.
* `jsonParse`     json/scanner.py `py_make_scanner` + json/decoder.py `py_scanstring` / `JSONArray` / `JSONObject`
                  (strict mode: raw control characters inside strings are rejected), whitespace-tolerant.
* `toJ`/`ofJ`     payload trees `Val` (str = UTF-8 bytes) ↔ `JV` (str = characters); UTF-8 by Lean core's codec.
* `flatEnc`       the flat encoders' `ravel().tolist()` on ndarray leaves (serialization.py:200-204, 267-271).
-/
namespace QcelVerif.Ser

/-! ## value trees -/

inductive JV where
  | null : JV
  | bool : Bool → JV
  | int : Int → JV
  | num : Bytes → JV                        -- float64, 8 bytes big-endian (as `Val.f64`)
  | str : List Char → JV
  | arr : List JV → JV
  | obj : List (List Char × JV) → JV
deriving Repr, BEq, Inhabited

structure FloatCodec where
  /-- `float.__repr__(x)` for a finite double given by its 8 big-endian bytes -/
  reprF : Bytes → List Char
  /-- `float(token)` → the 8 big-endian bytes -/
  parseF : List Char → Option Bytes

/-! ## floats: the three non-finite tokens are CPython's own (`json/encoder.py: floatstr`, `json/decoder.py: _CONSTANTS`) -/

def posInf : Bytes := [0x7f, 0xf0, 0, 0, 0, 0, 0, 0]
def negInf : Bytes := [0xff, 0xf0, 0, 0, 0, 0, 0, 0]
/-- `float('nan')`: what `json.loads` returns for the token `NaN` -/
def canonNaN : Bytes := [0x7f, 0xf8, 0, 0, 0, 0, 0, 0]

/-- exponent field all ones and a non-zero fraction -/
def isNaNB (b : Bytes) : Bool :=
  let n := beNat b
  n / 2 ^ 52 % 2048 == 2047 && n % 2 ^ 52 != 0

def isNumChar (c : Char) : Bool :=
  c.isDigit || c == '-' || c == '+' || c == '.' || c == 'e' || c == 'E'

inductive NumKind where
  | int | float
deriving Repr, DecidableEq

def dropMinus : List Char → List Char
  | [] => []
  | c :: u => if c = '-' then u else c :: u

/-- optional `.digits+` -/
def afterFrac : List Char → Option (List Char)
  | [] => some []
  | c :: t =>
    if c = '.' then (if (t.takeWhile Char.isDigit).isEmpty then none else some (t.dropWhile Char.isDigit))
    else some (c :: t)

def dropSign : List Char → List Char
  | [] => []
  | c :: u => if c = '-' ∨ c = '+' then u else c :: u

/-- optional `[eE][-+]?digits+` -/
def afterExp : List Char → Option (List Char)
  | [] => some []
  | c :: t =>
    if c = 'e' ∨ c = 'E' then
      (if ((dropSign t).takeWhile Char.isDigit).isEmpty then none else some ((dropSign t).dropWhile Char.isDigit))
    else some (c :: t)

/-- the JSON number grammar `-?(0|[1-9]\d*)(\.\d+)?([eE][-+]?\d+)?` on a whole token (json/scanner.py NUMBER_RE):
`int` when neither fraction nor exponent is present, `float` otherwise, `none` when the token is not a number -/
def numKind (t : List Char) : Option NumKind :=
  let u := dropMinus t
  let ip := u.takeWhile Char.isDigit
  let r := u.dropWhile Char.isDigit
  if ip.isEmpty then none
  else if ip.head? == some '0' && decide (1 < ip.length) then none
  else if r.isEmpty then some .int
  else
    match afterFrac r with
    | none => none
    | some r1 =>
      match afterExp r1 with
      | some [] => some .float
      | _ => none

/-- `int(token)` -/
def intOfTok : List Char → Int
  | [] => 0
  | c :: u => if c = '-' then -((Nat.ofDigitChars 10 u 0 : Nat) : Int) else ((Nat.ofDigitChars 10 (c :: u) 0 : Nat) : Int)

/-- `int.__repr__` -/
def printInt : Int → List Char
  | .ofNat n => Nat.toDigits 10 n
  | .negSucc n => '-' :: Nat.toDigits 10 (n + 1)

def startsNum : List Char → Bool
  | [] => false
  | c :: _ => c == '-' || c.isDigit

/-- what the text layer needs of a finite float's `repr`: made of number characters, starts like a number, is a JSON
number with a fraction or an exponent (so that it is read back as a float, not an int) -/
def tokOk (t : List Char) : Bool :=
  t.all isNumChar && startsNum t && (numKind t == some .float)

/-- per-value hypothesis on the float codec (decidable; the driver evaluates it for every float it prints):
8 bytes; a NaN is the canonical one (the token `NaN` carries no payload bits); for a finite value `repr` is a JSON float
token and `float(repr(x)) == x` bit-for-bit -/
def floatOk (P : FloatCodec) (b : Bytes) : Bool :=
  decide (b.length = 8) &&
    (if isNaNB b then b == canonNaN
     else if b == posInf || b == negInf then true
     else tokOk (P.reprF b) && (P.parseF (P.reprF b) == some b))

/-- `floatstr` (json/encoder.py): `NaN` / `Infinity` / `-Infinity`, else `float.__repr__` -/
def printNum (P : FloatCodec) (b : Bytes) : List Char :=
  if isNaNB b then ['N', 'a', 'N']
  else if b == posInf then ['I', 'n', 'f', 'i', 'n', 'i', 't', 'y']
  else if b == negInf then ['-', 'I', 'n', 'f', 'i', 'n', 'i', 't', 'y']
  else P.reprF b

/-! ## strings: `py_encode_basestring_ascii` (ensure_ascii=True) -/

def hex4 (n : Nat) : List Char :=
  [hexDigit (n / 4096 % 16), hexDigit (n / 256 % 16), hexDigit (n / 16 % 16), hexDigit (n % 16)]

/-- `'\\u{0:04x}'.format(n)` -/
def uEsc (n : Nat) : List Char := '\\' :: 'u' :: hex4 n

/-- ESCAPE_ASCII = `([\\"]|[^\ -~])`: `"` and `\` and everything outside `' '..'~'` is escaped; the short escapes of
ESCAPE_DCT for `\n \r \t \b \f`, `\u00XX` for the other control characters and DEL, `\uXXXX` for the rest of the BMP and
a UTF-16 surrogate pair beyond it -/
def escChar (c : Char) : List Char :=
  if c = '"' then ['\\', '"']
  else if c = '\\' then ['\\', '\\']
  else if c = '\n' then ['\\', 'n']
  else if c = '\r' then ['\\', 'r']
  else if c = '\t' then ['\\', 't']
  else if c = '\x08' then ['\\', 'b']
  else if c = '\x0c' then ['\\', 'f']
  else if 0x20 ≤ c.toNat ∧ c.toNat ≤ 0x7e then [c]
  else if c.toNat < 0x10000 then uEsc c.toNat
  else uEsc (0xd800 + (c.toNat - 0x10000) / 1024) ++ uEsc (0xdc00 + (c.toNat - 0x10000) % 1024)

def escStr : List Char → List Char
  | [] => []
  | c :: t => escChar c ++ escStr t

def printStr (s : List Char) : List Char := '"' :: (escStr s ++ ['"'])

/-! ## printer: `json.dumps` with the default separators `", "` and `": "` -/

section codec
variable (P : FloatCodec)

mutual
  def printV : JV → List Char
    | .null => ['n', 'u', 'l', 'l']
    | .bool true => ['t', 'r', 'u', 'e']
    | .bool false => ['f', 'a', 'l', 's', 'e']
    | .int i => printInt i
    | .num b => printNum P b
    | .str s => printStr s
    | .arr l => '[' :: (printElems l ++ [']'])
    | .obj l => '{' :: (printPairs l ++ ['}'])
  def printElems : List JV → List Char
    | [] => []
    | v :: t => printV v ++ printRest t
  def printRest : List JV → List Char
    | [] => []
    | v :: t => ',' :: ' ' :: (printV v ++ printRest t)
  def printPairs : List (List Char × JV) → List Char
    | [] => []
    | (k, v) :: t => printStr k ++ (':' :: ' ' :: (printV v ++ printMembers t))
  def printMembers : List (List Char × JV) → List Char
    | [] => []
    | (k, v) :: t => ',' :: ' ' :: (printStr k ++ (':' :: ' ' :: (printV v ++ printMembers t)))
end

/-! ## parser -/

inductive JErr where
  | fuel | eof | badChar | badLit | badNum | badEsc | ctrlInStr | loneSurrogate | extra | expectColon | expectKey
  | expectSep
deriving Repr, BEq, DecidableEq

def isJWs (c : Char) : Bool := c == ' ' || c == '\t' || c == '\n' || c == '\r'

def skipWs : List Char → List Char
  | [] => []
  | c :: t => if isJWs c then skipWs t else c :: t

def stripPrefix : List Char → List Char → Option (List Char)
  | [], s => some s
  | _ :: _, [] => none
  | a :: p, b :: s => if a = b then stripPrefix p s else none

def hex4? : List Char → Option (Nat × List Char)
  | a :: b :: c :: d :: r =>
    match unhexDigit a, unhexDigit b, unhexDigit c, unhexDigit d with
    | some x, some y, some z, some w => some (((x * 16 + y) * 16 + z) * 16 + w, r)
    | _, _, _, _ => none
  | _ => none

/-- `\\uXXXX` after the `u`: four hex digits; a high surrogate must be followed by `\\uXXXX` with a low surrogate (the pair
is one character beyond the BMP); lone surrogates are outside the modelled character range -/
def unescapeU (r : List Char) : Except JErr (Char × List Char) :=
  match hex4? r with
  | none => .error .badEsc
  | some (n, r1) =>
    if 0xd800 ≤ n ∧ n < 0xdc00 then
      match stripPrefix ['\\', 'u'] r1 with
      | none => .error .loneSurrogate
      | some r2 =>
        match hex4? r2 with
        | none => .error .badEsc
        | some (m, r3) =>
          if 0xdc00 ≤ m ∧ m < 0xe000 then .ok (Char.ofNat (0x10000 + (n - 0xd800) * 1024 + (m - 0xdc00)), r3)
          else .error .loneSurrogate
    else if 0xdc00 ≤ n ∧ n < 0xe000 then .error .loneSurrogate
    else .ok (Char.ofNat n, r1)

/-- one escape sequence, the backslash already consumed (`py_scanstring`: BACKSLASH table, `\\uXXXX`, surrogate pairs) -/
def unescape : List Char → Except JErr (Char × List Char)
  | [] => .error .eof
  | e :: r =>
    if e = '"' then .ok ('"', r)
    else if e = '\\' then .ok ('\\', r)
    else if e = '/' then .ok ('/', r)
    else if e = 'b' then .ok ('\x08', r)
    else if e = 'f' then .ok ('\x0c', r)
    else if e = 'n' then .ok ('\n', r)
    else if e = 'r' then .ok ('\r', r)
    else if e = 't' then .ok ('\t', r)
    else if e = 'u' then unescapeU r
    else .error .badEsc

/-- string body up to and including the closing quote (the opening quote already consumed); one unit of fuel per
character produced -/
def parseStr : Nat → List Char → Except JErr (List Char × List Char)
  | 0, _ => .error .fuel
  | _ + 1, [] => .error .eof
  | f + 1, c :: r =>
    if c = '"' then .ok ([], r)
    else if c = '\\' then
      match unescape r with
      | .error e => .error e
      | .ok (ch, r1) =>
        match parseStr f r1 with
        | .error e => .error e
        | .ok (cs, r2) => .ok (ch :: cs, r2)
    else if c.toNat < 0x20 then .error .ctrlInStr
    else
      match parseStr f r with
      | .error e => .error e
      | .ok (cs, r2) => .ok (c :: cs, r2)

/-- a number token: the maximal run of number characters, classified by the JSON grammar; `-Infinity` -/
def parseNum (s : List Char) : Except JErr (JV × List Char) :=
  let tok := s.takeWhile isNumChar
  let r := s.dropWhile isNumChar
  if tok = ['-'] then
    match stripPrefix ['I', 'n', 'f', 'i', 'n', 'i', 't', 'y'] r with
    | some r' => .ok (.num negInf, r')
    | none => .error .badNum
  else
    match numKind tok with
    | some .int => .ok (.int (intOfTok tok), r)
    | some .float =>
      match P.parseF tok with
      | some b => .ok (.num b, r)
      | none => .error .badNum
    | none => .error .badNum

def lit (p : List Char) (r : List Char) (v : JV) : Except JErr (JV × List Char) :=
  match stripPrefix p r with
  | some r' => .ok (v, r')
  | none => .error .badLit

/-- `"key" :` with whitespace allowed before the key and around the colon -/
def parseKey (s : List Char) : Except JErr (List Char × List Char) :=
  match skipWs s with
  | [] => .error .eof
  | c :: r =>
    if c = '"' then
      match parseStr (r.length + 1) r with
      | .error e => .error e
      | .ok (k, r1) =>
        match skipWs r1 with
        | [] => .error .eof
        | c2 :: r2 => if c2 = ':' then .ok (k, r2) else .error .expectColon
    else .error .expectKey

mutual
  /-- one value from the front of the text (leading whitespace skipped); fuel-bounded so that it is total —
  `jsonParse` supplies `length + 1`, which always suffices -/
  def parseV : Nat → List Char → Except JErr (JV × List Char)
    | 0, _ => .error .fuel
    | f + 1, s =>
      match skipWs s with
      | [] => .error .eof
      | c :: r =>
        if c = '-' ∨ c.isDigit = true then parseNum P (c :: r)
        else if c = '"' then
          match parseStr (r.length + 1) r with
          | .error e => .error e
          | .ok (cs, r1) => .ok (.str cs, r1)
        else if c = '[' then
          match skipWs r with
          | [] => .error .eof
          | c2 :: r2 =>
            if c2 = ']' then .ok (.arr [], r2)
            else
              match parseV f (c2 :: r2) with
              | .error e => .error e
              | .ok (v, r3) =>
                match parseRest f r3 with
                | .error e => .error e
                | .ok (l, r4) => .ok (.arr (v :: l), r4)
        else if c = '{' then
          match skipWs r with
          | [] => .error .eof
          | c2 :: r2 =>
            if c2 = '}' then .ok (.obj [], r2)
            else
              match parseKey (c2 :: r2) with
              | .error e => .error e
              | .ok (k, r3) =>
                match parseV f r3 with
                | .error e => .error e
                | .ok (v, r4) =>
                  match parseMembers f r4 with
                  | .error e => .error e
                  | .ok (l, r5) => .ok (.obj ((k, v) :: l), r5)
        else if c = 'n' then lit ['u', 'l', 'l'] r .null
        else if c = 't' then lit ['r', 'u', 'e'] r (.bool true)
        else if c = 'f' then lit ['a', 'l', 's', 'e'] r (.bool false)
        else if c = 'N' then lit ['a', 'N'] r (.num canonNaN)
        else if c = 'I' then lit ['n', 'f', 'i', 'n', 'i', 't', 'y'] r (.num posInf)
        else .error .badChar
  /-- the rest of an array after an element: `]` or `, value …` -/
  def parseRest : Nat → List Char → Except JErr (List JV × List Char)
    | 0, _ => .error .fuel
    | f + 1, s =>
      match skipWs s with
      | [] => .error .eof
      | c :: r =>
        if c = ']' then .ok ([], r)
        else if c = ',' then
          match parseV f r with
          | .error e => .error e
          | .ok (v, r1) =>
            match parseRest f r1 with
            | .error e => .error e
            | .ok (l, r2) => .ok (v :: l, r2)
        else .error .expectSep
  /-- the rest of an object after a member: `}` or `, "key": value …` -/
  def parseMembers : Nat → List Char → Except JErr (List (List Char × JV) × List Char)
    | 0, _ => .error .fuel
    | f + 1, s =>
      match skipWs s with
      | [] => .error .eof
      | c :: r =>
        if c = '}' then .ok ([], r)
        else if c = ',' then
          match parseKey r with
          | .error e => .error e
          | .ok (k, r1) =>
            match parseV f r1 with
            | .error e => .error e
            | .ok (v, r2) =>
              match parseMembers f r2 with
              | .error e => .error e
              | .ok (l, r3) => .ok ((k, v) :: l, r3)
        else .error .expectSep
end

/-- `json.loads(text)` (no hook): one value, then only whitespace -/
def jsonParse (s : List Char) : Except JErr JV :=
  match parseV P (s.length + 1) s with
  | .error e => .error e
  | .ok (v, r) => if (skipWs r).isEmpty then .ok v else .error .extra

/-! ## well-formedness of a tree for the text layer: every float satisfies `floatOk` -/

mutual
  def twf : JV → Bool
    | .num b => floatOk P b
    | .arr l => twfL l
    | .obj l => twfP l
    | _ => true
  def twfL : List JV → Bool
    | [] => true
    | v :: t => twf v && twfL t
  def twfP : List (List Char × JV) → Bool
    | [] => true
    | (_, v) :: t => twf v && twfP t
end

end codec

/-! ## payload trees ↔ JSON trees (str: UTF-8 bytes ↔ characters, Lean core's codec) -/

def utf8Enc (cs : List Char) : Bytes := (String.ofList cs).toUTF8.data.toList

def utf8Dec (b : Bytes) : Option (List Char) := (ByteArray.mk b.toArray).utf8Decode?.map Array.toList

mutual
  /-- the JSON tree `json.dumps` sees; `none` for what JSON cannot hold as such: bytes, non-str keys, invalid UTF-8,
  and ndarray leaves (replaced beforehand by `jxEnc` / `flatEnc`) -/
  def toJ : Val → Option JV
    | .nil => some .null
    | .bool b => some (.bool b)
    | .int i => some (.int i)
    | .f64 b => some (.num b)
    | .str s => (utf8Dec s).map .str
    | .bin _ => none
    | .nd _ _ _ => none
    | .arr l => (toJL l).map .arr
    | .map l => (toJP l).map .obj
  def toJL : List Val → Option (List JV)
    | [] => some []
    | v :: t =>
      match toJ v, toJL t with
      | some v', some t' => some (v' :: t')
      | _, _ => none
  def toJP : List (Val × Val) → Option (List (List Char × JV))
    | [] => some []
    | (k, v) :: t =>
      match k with
      | .str kb =>
        match utf8Dec kb, toJ v, toJP t with
        | some k', some v', some t' => some ((k', v') :: t')
        | _, _, _ => none
      | _ => none
end

mutual
  /-- what `json.loads` hands back, as a payload tree -/
  def ofJ : JV → Val
    | .null => .nil
    | .bool b => .bool b
    | .int i => .int i
    | .num b => .f64 b
    | .str s => .str (utf8Enc s)
    | .arr l => .arr (ofJL l)
    | .obj l => .map (ofJP l)
  def ofJL : List JV → List Val
    | [] => []
    | v :: t => ofJ v :: ofJL t
  def ofJP : List (List Char × JV) → List (Val × Val)
    | [] => []
    | (k, v) :: t => (.str (utf8Enc k), ofJ v) :: ofJP t
end

/-! ## the flat encoders: `obj.ravel().tolist()` on every ndarray leaf (rank ≥ 1)

The leaf holds the C-contiguous bytes, so the row-major element order IS the byte order; `elemsOf` cuts the buffer into
`itemsize` blocks and decodes each as numpy's `tolist()` does.  Modelled element kinds: float64, signed / unsigned
integers of 1, 2, 4, 8 bytes, bool, each in either byte order (everything the models' array fields hold); other dtypes
(`f2 f4 c8 c16 U S`) give `none` (not modelled for the flat encodings). -/

def isLE (dt : Bytes) : Bool := dt.head? != some 62          -- '>' is big-endian; '<', '|', '=' little / not applicable

/-- one element from its `itemsize` bytes -/
def decodeElem (dt : Bytes) (blk : Bytes) : Option Val :=
  let be := if isLE dt then blk.reverse else blk
  match dt with
  | [_, k, _] =>
    if k = 102 then (if blk.length = 8 then some (.f64 be) else none)                  -- f8
    else if k = 117 then some (.int (beNat be))                                           -- u1 u2 u4 u8
    else if k = 105 then                                                                   -- i1 i2 i4 i8
      let n := beNat be
      some (.int (if n < 2 ^ (8 * blk.length - 1) then (n : Int) else (n : Int) - (2 ^ (8 * blk.length) : Nat)))
    else if k = 98 then some (.bool (beNat be != 0))                                       -- b1
    else none
  | _ => none

def mapM? {α β : Type} (f : α → Option β) : List α → Option (List β)
  | [] => some []
  | a :: t =>
    match f a, mapM? f t with
    | some b, some r => some (b :: r)
    | _, _ => none

/-- `a.ravel().tolist()` -/
def elemsOf (dt data : Bytes) : Option (List Val) :=
  match itemsize dt with
  | none => none
  | some 0 => none
  | some isz => mapM? (decodeElem dt) (chunk isz (data.length / isz) data)

mutual
  /-- `json_dumps` / `msgpack_dumps`: what the encoder hands on (ndarray leaves → flat lists) -/
  def flatEnc : Val → Option Val
    | .arr l => (flatEncL l).map .arr
    | .map l => (flatEncP l).map .map
    | .nd dt _ data => (elemsOf dt data).map .arr
    | v => some v
  def flatEncL : List Val → Option (List Val)
    | [] => some []
    | v :: t =>
      match flatEnc v, flatEncL t with
      | some v', some t' => some (v' :: t')
      | _, _ => none
  def flatEncP : List (Val × Val) → Option (List (Val × Val))
    | [] => some []
    | (k, v) :: t =>
      match flatEnc v, flatEncP t with
      | some v', some t' => some ((k, v') :: t')
      | _, _ => none
end

/-! ## the four text / byte level entry points -/

section entry
variable (P : FloatCodec)

/-- `serialize(v, "json-ext")` -/
def serializeJsonExt (v : Val) : Option (List Char) := (toJ (jxEnc v)).map (printV P)

/-- `serialize(v, "json")` -/
def serializeJson (v : Val) : Option (List Char) := (flatEnc v).bind fun w => (toJ w).map (printV P)

/-- `serialize(v, "msgpack")` -/
def serializeMsgpack (v : Val) : Option Bytes := (flatEnc v).map mpEnc

inductive TextErr where
  | parse (e : JErr) | hook (e : HookErr)
deriving Repr, BEq

/-- `deserialize(text, "json-ext")` and `deserialize(text, "json")` (`json.loads(text, object_hook=jsonext_decode)`) -/
def deserializeJsonExt (t : List Char) : Except TextErr Val :=
  match jsonParse P t with
  | .error e => .error (.parse e)
  | .ok j =>
    match jxDec (ofJ j) with
    | .error e => .error (.hook e)
    | .ok v => .ok v

/-- pydantic's plain `json.loads(text)` (`parse_raw(encoding="json")`): no hook -/
def deserializeJsonPlain (t : List Char) : Except TextErr Val :=
  match jsonParse P t with
  | .error e => .error (.parse e)
  | .ok j => .ok (ofJ j)

end entry

end QcelVerif.Ser
