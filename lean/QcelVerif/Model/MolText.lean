/-
C07 — text layer of QCElemental molecules (core Lean only).

M1  the reader: `from_string.py` up to (not including) `from_input_arrays`, i.e. what `return_processed=True`
    exposes: `filter_comments` (util/misc.py:89-92), `strip`, line split, the line filters `_filter_xyz`
    (from_string.py:689-771), `_filter_universals` (389-441), `_filter_libefp` (461-508), `_filter_mints` (548-673),
    remnants ⇒ MoleculeFormatError (193-194, 221-222).  No regex engine: every pattern of regex.py:3-33 and of
    from_string.py is replaced by a hand-written recogniser; why each recogniser decides the same language as the
    (backtracking) regex is argued in the comment next to it, and the tie to the code is the differential run.
M2  the writers: `to_string.py:127-142` (xyz, xyz+), `313-332` (psi4), `_atoms_formatter` (467-500) as lines of
    tokens with the implementation's padding.  Printed numbers (CPython `'{:.{prec}f}'`, `int(...)`) are parameters.

Strings are `List Char` (ASCII texts only).
-/
namespace QcelVerif.MolText

abbrev Str := List Char

/-! ## character classes -/

/-- `regex.SEP = [\t ,]+` -/
def isSep (c : Char) : Bool := c == ' ' || c == '\t' || c == ','

/-- ASCII characters for which `str.isspace()` holds: what `str.strip()` removes and `\s` matches -/
def isWs (c : Char) : Bool :=
  c == ' ' || c == '\t' || c == '\n' || c == '\r' || c == '\x0b' || c == '\x0c' ||
  c == '\x1c' || c == '\x1d' || c == '\x1e' || c == '\x1f'

/-- `\w` on ASCII -/
def isWord (c : Char) : Bool := c.isAlphanum || c == '_'

def lowerS (s : Str) : Str := s.map Char.toLower

/-! ## strip, lines, tokens -/

def stripL (s : Str) : Str := s.dropWhile isWs
def stripR (s : Str) : Str := (s.reverse.dropWhile isWs).reverse
/-- `str.strip()` -/
def strip (s : Str) : Str := stripR (stripL s)

/-- `s.split("\n")` -/
def splitLines : Str → List Str
  | [] => [[]]
  | c :: t =>
    match splitLines t with
    | [] => [[]]
    | h :: r => if c == '\n' then [] :: h :: r else (c :: h) :: r

/-- `re.split(r"[\t ,]+", s)`: fields between maximal separator runs, empty first/last field kept.
At a separator character a field boundary is emitted only by the last character of its run. -/
def splitSep : Str → List Str
  | [] => [[]]
  | c :: t =>
    match splitSep t with
    | [] => [[]]
    | h :: r =>
      if isSep c then
        (match t with
         | d :: _ => if isSep d then h :: r else [] :: h :: r
         | [] => [] :: h :: r)
      else (c :: h) :: r

/-! ## `filter_comments`:  `re.sub(r"(^|[^\\])#.*", r"\1", s)` (as repaired: the captured character is kept)

Leftmost non-overlapping matches: at position `i` the pattern matches iff (`i = 0` and `s[0] = '#'`) or
(`s[i] ≠ '\\'` and `s[i+1] = '#'`; `[^\\]` also matches a newline); the match extends to the end of the line. -/

/-- one pass, character by character: inside a comment everything up to (not including) the newline is dropped;
outside, `#` opens a comment unless the previous character of the text is a backslash (`prev = none` at the start
of the text is the `^` alternative).  A character consumed by an earlier match lies inside that comment, so
"non-overlapping" needs no extra state. -/
def fcGo (inC : Bool) (prev : Option Char) : Str → Str
  | [] => []
  | c :: t =>
    if inC then (if c == '\n' then c :: fcGo false (some c) t else fcGo true prev t)
    else if c == '#' && prev != some '\\' then fcGo true prev t
    else c :: fcGo false (some c) t

def filterComments (s : Str) : Str := fcGo false none s

/-! ## NUMBER  (regex.py:18-22)

`[-+]?\d*\.\d+(?:[DdEe][-+]?\d+)? | [-+]?\d+\.\d*(?:…)? | [-+]?\d+(?:…)?`, used only where the text before and
after is a separator or the line end, so a match is a whole separator-free token.  A token is in the language iff
  token = mantissa ++ exponent, mantissa = maximal prefix over `[-+.0-9]`,
  mantissa = sign? ip [. fp]  with (dot ∧ (ip ≠ "" ∨ fp ≠ "")) ∨ (¬dot ∧ ip ≠ ""),
  exponent = "" or `[DdEe] [-+]? \d+`.
(An exponent letter cannot occur inside the mantissa, and sign characters after it belong to the exponent.) -/

structure NumParts where
  neg : Bool
  ip : Str
  fp : Str
  hasDot : Bool
  exp : Option (Bool × Str)   -- (negative?, digits)
deriving DecidableEq, Repr

def allDigits (s : Str) : Bool := s.all Char.isDigit

def isMantChar (c : Char) : Bool := c.isDigit || c == '.' || c == '+' || c == '-'
def isExpChar (c : Char) : Bool := c == 'e' || c == 'E' || c == 'd' || c == 'D'

/-- unsigned mantissa `ip [. fp]` -/
def parseMantU (s : Str) : Option (Str × Str × Bool) :=
  let ip := s.takeWhile Char.isDigit
  match s.dropWhile Char.isDigit with
  | [] => if ip.isEmpty then none else some (ip, [], false)
  | '.' :: r => if allDigits r && (!ip.isEmpty || !r.isEmpty) then some (ip, r, true) else none
  | _ => none

def parseMant (s : Str) : Option (Bool × Str × Str × Bool) :=
  match s with
  | [] => none
  | c :: r =>
    if c == '-' then (parseMantU r).map fun (a, b, d) => (true, a, b, d)
    else if c == '+' then (parseMantU r).map fun (a, b, d) => (false, a, b, d)
    else (parseMantU s).map fun (a, b, d) => (false, a, b, d)

def parseExp (s : Str) : Option (Option (Bool × Str)) :=
  match s with
  | [] => some none
  | e :: r =>
    if isExpChar e then
      match r with
      | '-' :: d => if allDigits d && !d.isEmpty then some (some (true, d)) else none
      | '+' :: d => if allDigits d && !d.isEmpty then some (some (false, d)) else none
      | d => if allDigits d && !d.isEmpty then some (some (false, d)) else none
    else none

def parseNumber (t : Str) : Option NumParts :=
  match parseMant (t.takeWhile isMantChar), parseExp (t.dropWhile isMantChar) with
  | some (n, a, b, d), some e => some { neg := n, ip := a, fp := b, hasDot := d, exp := e }
  | _, _ => none

def isNumber (t : Str) : Bool := (parseNumber t).isSome

def digitsToNat (s : Str) : Nat := s.foldl (fun n c => n * 10 + (c.toNat - 48)) 0

/-- exact decimal value: `(negative?, mantissa, exponent)` meaning `± mantissa · 10^exponent`
(what `_float` = `float(text with D→e)` converts, correctly rounded, to a double) -/
def numVal (p : NumParts) : Bool × Nat × Int :=
  let e : Int := match p.exp with
    | none => 0
    | some (true, d) => -(digitsToNat d : Int)
    | some (false, d) => (digitsToNat d : Int)
  (p.neg, digitsToNat (p.ip ++ p.fp), e - (p.fp.length : Int))

/-! ## NUCLEUS  (regex.py:3-16), IGNORECASE

`(?:(@)|(Gh\())? ( (\d+)?([A-Z]{1,3})((_\w+)|(\d+))? | (\d{1,3})(_\w+)? ) (?:@(\d+\.\d+))? (?(gh2)\))`, whole token.
* ghost: a token starting with `@` can only use gh1; one starting with `Gh(` (any case) can only use gh2 — skipping the
  optional group would leave `(` after the element letters, which nothing accepts — and must then end with `)`.
* mass: the label alternatives contain no `@`, so the core splits at its first `@`; what follows must be `\d+\.\d+`.
* label: leading digit run `A`, then letter run `L`.  If `L ≠ ""` only label1 applies: `1 ≤ |L| ≤ 3` (a 4th letter is
  accepted by nothing) and the rest is "", `_\w+` or `\d+`.  If `L = ""` only label2: `1 ≤ |A| ≤ 3`, rest "" or `_\w+`. -/

structure Nuc where
  ghost : Bool
  a : Str        -- mass number digits (label1) — empty if absent
  sym : Str      -- element letters (label1) — empty for label2
  z : Str        -- atomic number digits (label2)
  user : Str     -- user label incl. leading `_`, or digits
  mass : Option (Str × Str)
deriving DecidableEq, Repr

def userOk1 (r : Str) : Bool :=
  match r with
  | [] => true
  | '_' :: w => !w.isEmpty && w.all isWord
  | _ => allDigits r

def userOk2 (r : Str) : Bool :=
  match r with
  | [] => true
  | '_' :: w => !w.isEmpty && w.all isWord
  | _ => false

def parseMass (s : Str) : Option (Option (Str × Str)) :=
  match s with
  | [] => some none
  | '@' :: m =>
    let a := m.takeWhile Char.isDigit
    match m.dropWhile Char.isDigit with
    | '.' :: b => if !a.isEmpty && !b.isEmpty && allDigits b then some (some (a, b)) else none
    | _ => none
  | _ => none

def parseCore (ghost : Bool) (core : Str) : Option Nuc :=
  let lbl := core.takeWhile (· != '@')
  match parseMass (core.dropWhile (· != '@')) with
  | none => none
  | some mass =>
    let a := lbl.takeWhile Char.isDigit
    let r := lbl.dropWhile Char.isDigit
    let l := r.takeWhile Char.isAlpha
    let u := r.dropWhile Char.isAlpha
    if !l.isEmpty then
      if l.length ≤ 3 && userOk1 u then some { ghost, a, sym := l, z := [], user := u, mass } else none
    else
      if 1 ≤ a.length && a.length ≤ 3 && userOk2 u then some { ghost, a := [], sym := [], z := a, user := u, mass } else none

def isGhPrefix (t : Str) : Bool :=
  match t with
  | g :: h :: p :: _ => g.toLower == 'g' && h.toLower == 'h' && p == '('
  | _ => false

def parseNucleus (t : Str) : Option Nuc :=
  match t with
  | [] => none
  | c :: r =>
    if c == '@' then parseCore true r
    else if isGhPrefix t then
      (if t.getLast? = some ')' then parseCore true ((t.drop 3).dropLast) else none)
    else parseCore false t

def isNucleus (t : Str) : Bool := (parseNucleus t).isSome

/-- `SIMPLENUCLEUS = [A-Z]{1,3} | \d{1,3}` (from_string.py:677), IGNORECASE, whole token -/
def isSimpleNucleus (t : Str) : Bool :=
  1 ≤ t.length && t.length ≤ 3 && (t.all Char.isAlpha || allDigits t)

/-! ## line classification (stripped, non-empty lines)

The patterns below are mutually exclusive on a stripped line (different token counts / first tokens), so the
first-match order of the filters does not matter and each line has one class. -/

inductive Line where
  | blank
  | com                      -- `\A(no_com|nocom)\Z`
  | orient                   -- `\A(no_reorient|noreorient)\Z`
  | units (bohr : Bool)      -- `\Aunits?[\s=]+((bohr|au|a.u.)|(ang|angstrom))\Z`
  | sym (pg : Str)           -- `\Asymmetry[\s=]+(\w+)\Z`, pg lower-cased
  | marker                   -- a line that is `--` (between `^\s*` and `\s*$`)
  | cgmp (c : NumParts) (m : Str)          -- `\A NUMBER SEP \d+ \Z`
  | atom (lbl : Str) (x y z : NumParts)    -- `\A NUCLEUS SEP NUMBER SEP NUMBER SEP NUMBER \Z`
  | efp (file : Str) (h : List NumParts)   -- `\A efp SEP \w+ (SEP NUMBER){6} ENDL \Z`
  | efpHead                  -- `efp SEP \w+ ENDL`: may start the three-point form (out of model scope)
  | pubchem                  -- starts with `pubchem` (network; out of model scope)
  | other (s : Str)
deriving DecidableEq, Repr

def isWsEq (c : Char) : Bool := isWs c || c == '='

/-- after the keyword: `[\s=]+` (maximal: no unit / point-group name starts with such a character), then the rest -/
def afterKw (r : Str) : Option Str :=
  match r with
  | c :: _ => if isWsEq c then some (r.dropWhile isWsEq) else none
  | [] => none

def classifyUnits (l : Str) : Option Bool :=
  -- l lower-cased; `units?`: the optional `s` is taken iff present (no unit name starts with `s`)
  match l with
  | 'u' :: 'n' :: 'i' :: 't' :: r =>
    let r := match r with | 's' :: r' => r' | _ => r
    match afterKw r with
    | none => none
    | some u =>
      if u == "bohr".toList || u == "au".toList then some true
      else if u == "ang".toList || u == "angstrom".toList then some false
      else match u with
        | ['a', _, 'u', _] => some true    -- `a.u.` with `.` = any character (lines hold no newline)
        | _ => none
  | _ => none

def classifySym (raw : Str) : Option Str :=
  let l := lowerS raw
  match l with
  | 's' :: 'y' :: 'm' :: 'm' :: 'e' :: 't' :: 'r' :: 'y' :: r =>
    match afterKw r with
    | none => none
    | some pg => if !pg.isEmpty && pg.all isWord then some pg else none
  | _ => none

/-- drop one trailing empty field (a trailing separator run, allowed by `ENDL = [\t ,]*$`) -/
def dropTrailingEmpty (ts : List Str) : List Str :=
  match ts.reverse with
  | [] :: r => r.reverse
  | _ => ts

/-- keyword / efp classes (lines that are neither atom nor CHGMULT lines) -/
def classifyRest (s : Str) : Line :=
  let l := lowerS s
  if l == "no_com".toList || l == "nocom".toList then .com
  else if l == "no_reorient".toList || l == "noreorient".toList then .orient
  else if s == "--".toList then .marker
  else if l.take 7 == "pubchem".toList then .pubchem
  else match classifyUnits l with
  | some b => .units b
  | none =>
  match classifySym s with
  | some pg => .sym pg
  | none =>
    match dropTrailingEmpty (splitSep s) with
    | [e, f] => if lowerS e == "efp".toList && !f.isEmpty && f.all isWord then .efpHead else .other s
    | [e, f, x, y, z, a, b, c] =>
      if lowerS e == "efp".toList && !f.isEmpty && f.all isWord then
        (match parseNumber x, parseNumber y, parseNumber z, parseNumber a, parseNumber b, parseNumber c with
         | some px, some py, some pz, some pa, some pb, some pc => .efp f [px, py, pz, pa, pb, pc]
         | _, _, _, _, _, _ => .other s)
      else .other s
    | _ => .other s

/-- atom and CHGMULT lines are recognised on the separator-split fields first (no keyword line has four fields whose
first is a NUCLEUS, or two fields whose first is a NUMBER, so the order of the tests is immaterial) -/
def classify (s : Str) : Line :=
  if s.isEmpty then .blank else
  match splitSep s with
  | [n, x, y, z] =>
    (match parseNucleus n, parseNumber x, parseNumber y, parseNumber z with
     | some _, some px, some py, some pz => .atom n px py pz
     | _, _, _, _ => classifyRest s)
  | [c, m] =>
    (match parseNumber c with
     | some cn => if allDigits m && !m.isEmpty then .cgmp cn m else classifyRest s
     | none => classifyRest s)
  | _ => classifyRest s

/-! ## the processed record (`molinit` of from_string, before `_filter_kwargs`) -/

structure Processed where
  units : Option Bool := none          -- some true = Bohr, some false = Angstrom
  fixCom : Bool := false
  fixOrient : Bool := false
  fixSym : Option Str := none
  molChg : Option NumParts := none
  molMult : Option Str := none
  elbl : List Str := []
  geom : List NumParts := []
  seps : List Nat := []
  fragChg : List (Option NumParts) := []
  fragMult : List (Option Str) := []
  efp : List (Str × List NumParts) := []
  isPsi4 : Bool := false
deriving DecidableEq, Repr

inductive Outcome where
  | ok (p : Processed)
  | formatError
  | outOfScope
deriving DecidableEq, Repr

/-! ## `_filter_xyz` -/

/-- `xyz1strict = \A\d+\Z` -/
def isNatLine (s : Str) : Bool := !s.isEmpty && allDigits s

def isWsComma (c : Char) : Bool := isWs c || c == ','

/-- `xyz1 = \A(\d+)[\s,]*((bohr|au)|(ang))?\Z` IGNORECASE: maximal digit run (a following digit starts nothing else),
maximal `[\s,]` run, then nothing or one of the three unit words.  `some none` = matched without unit. -/
def matchXyz1 (s : Str) : Option (Option Bool) :=
  let d := s.takeWhile Char.isDigit
  if d.isEmpty then none else
  let u := lowerS ((s.dropWhile Char.isDigit).dropWhile isWsComma)
  if u.isEmpty then some none
  else if u == "bohr".toList || u == "au".toList then some (some true)
  else if u == "ang".toList then some (some false)
  else none

/-- `xyz2 = \A CHGMULT` (prefix match): the first separator-free token is a NUMBER, a separator run follows, then
at least one digit; `mult` is the maximal digit run (greedy, nothing follows in the pattern). -/
def matchXyz2 (s : Str) : Option (NumParts × Str) :=
  let t0 := s.takeWhile (fun c => !isSep c)
  let r := s.dropWhile (fun c => !isSep c)
  match parseNumber t0 with
  | none => none
  | some c =>
    match r with
    | [] => none
    | _ :: _ =>
      let r' := r.dropWhile isSep
      let m := r'.takeWhile Char.isDigit
      if m.isEmpty then none else some (c, m)

/-- atom lines of the xyz dialects; `strict` additionally wants a SIMPLENUCLEUS label -/
def xyzAtoms (strict : Bool) : List Line → Option (List Str × List NumParts)
  | [] => some ([], [])
  | .blank :: r => xyzAtoms strict r
  | .atom n x y z :: r =>
    if strict && !isSimpleNucleus n then none
    else (xyzAtoms strict r).map fun (ls, g) => (n :: ls, x :: y :: z :: g)
  | _ :: _ => none

def parseXyzLines (strict : Bool) (lines : List Str) : Outcome :=
  match lines with
  | [] => .ok {}
  | l0 :: rest =>
    -- line 0
    let h0 : Option (Option Bool) :=
      if l0.isEmpty then some none
      else if strict then (if isNatLine l0 then some none else none)
      else matchXyz1 l0
    match h0 with
    | none => .formatError
    | some u =>
      -- line 1 (never a remnant)
      let (cm, body) : Option (NumParts × Str) × List Str :=
        match rest with
        | [] => (none, [])
        | l1 :: body => ((if strict then none else matchXyz2 l1), body)
      match xyzAtoms strict (body.map classify) with
      | none => .formatError
      | some (ls, g) =>
        .ok { units := some (u.getD false), molChg := cm.map (·.1), molMult := cm.map (·.2), elbl := ls, geom := g }

/-! ## `_filter_universals` — first occurrence of each keyword is consumed, later ones stay (and end as remnants) -/

structure UState where
  com : Bool := false
  ori : Bool := false
  units : Option Bool := none
  sym : Option Str := none
deriving DecidableEq, Repr

def univGo (st : UState) : List Line → UState × List Line
  | [] => (st, [])
  | l :: ls =>
    match l with
    | .com =>
      if st.com then (let (s', r) := univGo st ls; (s', l :: r)) else univGo { st with com := true } ls
    | .orient =>
      if st.ori then (let (s', r) := univGo st ls; (s', l :: r)) else univGo { st with ori := true } ls
    | .units b =>
      if st.units.isSome then (let (s', r) := univGo st ls; (s', l :: r)) else univGo { st with units := some b } ls
    | .sym pg =>
      if st.sym.isSome then (let (s', r) := univGo st ls; (s', l :: r)) else univGo { st with sym := some pg } ls
    | _ => let (s', r) := univGo st ls; (s', l :: r)

/-! ## fragments -/

/-- `re.split(fragment_marker, string)` seen on lines: marker lines separate fragments -/
def splitMarkers : List Line → List (List Line)
  | [] => [[]]
  | l :: ls =>
    match splitMarkers ls with
    | [] => [[]]
    | h :: r => if l == .marker then [] :: h :: r else (l :: h) :: r

/-! ## `_filter_libefp` (single-line form) -/

structure EfpOut where
  frags : List (List Line) := []      -- surviving non-empty fragments
  efp : List (Str × List NumParts) := []
  scope : Bool := true

def efpGo : List (List Line) → EfpOut
  | [] => {}
  | f :: fs =>
    let o := efpGo fs
    match f with
    | [] => o                                                 -- empty fragments are dropped
    | [.efp file h] => { o with efp := (file, h) :: o.efp }   -- consumed
    | .efpHead :: _ => { o with frags := f :: o.frags, scope := false }
    | _ => { o with frags := f :: o.frags }

/-! ## `_filter_mints` -/

structure FragSum where
  cgmp : Option (NumParts × Str) := none
  labels : List Str := []
  coords : List NumParts := []
  remnant : Bool := false
deriving DecidableEq, Repr

/-- `filter_fragment`: first CHGMULT line is the fragment's, Cartesian atom lines are consumed, all else remains -/
def fragSum : List Line → FragSum
  | [] => {}
  | l :: ls =>
    let s := fragSum ls
    match l with
    | .cgmp c m =>
      -- the first one wins; a later one is a remnant
      (match s.cgmp with
       | none => { s with cgmp := some (c, m) }
       | some _ => { s with cgmp := some (c, m), remnant := true })
    | .atom n x y z => { s with labels := n :: s.labels, coords := x :: y :: z :: s.coords }
    | _ => { s with remnant := true }

/-- `fragment_separators.append(start_atom)` whenever a fragment starts after at least one atom -/
def sepsGo (start : Nat) : List Nat → List Nat
  | [] => []
  | n :: rest => (if start > 0 then [start] else []) ++ sepsGo (start + n) rest

def assemble (st : UState) (efp : List (Str × List NumParts)) (sys : Option (NumParts × Str)) (fs : List FragSum) : Outcome :=
  if fs.any (·.remnant) then .formatError else
  .ok { units := st.units, fixCom := st.com, fixOrient := st.ori, fixSym := st.sym,
        molChg := sys.map (·.1), molMult := sys.map (·.2),
        elbl := fs.flatMap (·.labels), geom := fs.flatMap (·.coords),
        seps := sepsGo 0 (fs.map (·.labels.length)),
        fragChg := fs.map fun f => f.cgmp.map (·.1), fragMult := fs.map fun f => f.cgmp.map (·.2),
        efp := efp, isPsi4 := true }

def mints (st : UState) (efp : List (Str × List NumParts)) (frags : List (List Line)) : Outcome :=
  -- "\n--\n".join([]) = "" splits into one empty fragment
  let frags := if frags.isEmpty then [[]] else frags
  match frags with
  | [.cgmp c m] :: rest => assemble st efp (some (c, m)) (rest.map fragSum)   -- `ifr == 0 and cgmp.match(frag)`
  | _ => assemble st efp none (frags.map fragSum)

def parsePsi4Lines (lines : List Line) : Outcome :=
  let lines := lines.filter (· != .blank)
  if lines.any (· == .pubchem) then .outOfScope else
  let (st, rest) := univGo {} lines
  let e := efpGo (splitMarkers rest)
  if !e.scope then .outOfScope else
  mints st e.efp e.frags

/-! ## whole texts -/

inductive Dtype where | xyz | xyzPlus | psi4
deriving DecidableEq, Repr

def textLines (s : Str) : List Str := (splitLines (filterComments (strip s))).map strip

def parseText (d : Dtype) (s : Str) : Outcome :=
  match d with
  | .xyz => parseXyzLines true (textLines s)
  | .xyzPlus => parseXyzLines false (textLines s)
  | .psi4 => parsePsi4Lines ((textLines s).map classify)

/-! # M2 — writers -/

/-- a printed coordinate `[-]ip.fp` (CPython `'{:.{prec}f}'`, prec ≥ 1) -/
structure Coord where
  neg : Bool
  ip : Str
  fp : Str
deriving DecidableEq, Repr

def Coord.str (c : Coord) : Str := (if c.neg then ['-'] else []) ++ c.ip ++ '.' :: c.fp
def Coord.parts (c : Coord) : NumParts := { neg := c.neg, ip := c.ip, fp := c.fp, hasDot := true, exp := none }

/-- a printed integer `[-]digits` (`int(charge)`) -/
structure IntS where
  neg : Bool
  digs : Str
deriving DecidableEq, Repr

def IntS.str (c : IntS) : Str := (if c.neg then ['-'] else []) ++ c.digs
def IntS.parts (c : IntS) : NumParts := { neg := c.neg, ip := c.digs, fp := [], hasDot := false, exp := none }

structure Atom where
  sym : Str
  real : Bool
  lbl : Str
  x : Coord
  y : Coord
  z : Coord
deriving DecidableEq, Repr

structure Frag where
  chg : IntS
  mult : Str
  atoms : List Atom
deriving DecidableEq, Repr

structure MolRec where
  chg : IntS
  mult : Str
  frags : List Frag
  bohr : Bool
  fixCom : Bool
  fixOrient : Bool
  name : Str
deriving DecidableEq, Repr

def padRight (w : Nat) (s : Str) : Str := s ++ List.replicate (w - s.length) ' '
def padLeft (w : Nat) (s : Str) : Str := List.replicate (w - s.length) ' ' ++ s

/-- nucleus token: xyz `{elem}` / `@{elem}` (to_string.py:131-132), psi4 `{elem}{elbl}` / `Gh({elem}{elbl})` (314-315) -/
def nucXyz (a : Atom) : Str := if a.real then a.sym else '@' :: a.sym
def nucPsi4 (a : Atom) : Str := if a.real then a.sym ++ a.lbl else "Gh(".toList ++ a.sym ++ a.lbl ++ [')']

/-- `_atoms_formatter` (467-500): `{:17}` label, three `{:>17.{prec}f}` numbers, joined by two blanks -/
def atomLine (nuc : Str) (a : Atom) : Str :=
  padRight 17 nuc ++ "  ".toList ++ padLeft 17 a.x.str ++ "  ".toList ++ padLeft 17 a.y.str ++ "  ".toList ++ padLeft 17 a.z.str

def natStr (n : Nat) : Str := (toString n).toList

def allAtoms (r : MolRec) : List Atom := r.frags.flatMap (·.atoms)

/-- to_string.py:138-142  (`first_line.rstrip()`; second line `int(chg) mult name`); `natS` = printed `str(nat)` -/
def writeXyz (natS : Str) (r : MolRec) : List Str :=
  (natS ++ (if r.bohr then " au".toList else [])) ::
  (r.chg.str ++ ' ' :: r.mult ++ ' ' :: r.name) ::
  (allAtoms r).map fun a => atomLine (nucXyz a) a

def cgmpLine (c : IntS) (m : Str) : Str := c.str ++ ' ' :: m

def fragLinesPsi4 (multi : Bool) (f : Frag) : List Str :=
  (if multi then ["--".toList, cgmpLine f.chg f.mult] else []) ++ f.atoms.map fun a => atomLine (nucPsi4 a) a

/-- to_string.py:320-332 -/
def writePsi4 (r : MolRec) : List Str :=
  cgmpLine r.chg r.mult ::
  (r.frags.flatMap (fragLinesPsi4 (r.frags.length > 1))) ++
  [(if r.bohr then "units bohr".toList else "units angstrom".toList)] ++
  (if r.fixCom then ["no_com".toList] else []) ++
  (if r.fixOrient then ["no_reorient".toList] else [])

/-- `"\n".join(smol) + "\n"` (460) -/
def render (ls : List Str) : Str := ls.flatMap (· ++ ['\n'])

end QcelVerif.MolText
