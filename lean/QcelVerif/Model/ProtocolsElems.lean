import QcelVerif.Model.Protocols
/-
Element-carrying companion of `Model/Protocols.lean` (C20).  Core Lean only.

There an array is its shape.  Here an array is its shape TOGETHER WITH its row-major element sequence `data : π`
(`π = List α` for abstract elements `α`; the driver instantiates `π` with a digest of that list).  The one modelling
statement about numpy is `Arr.reshapeWith`: `np.asarray(v).reshape(...)` (C order, the only order the validators use)
changes the shape and leaves the row-major element sequence as it is — whatever the memory layout of `v`
(C, Fortran, transposed or strided view, nested list).  Everything else follows the code exactly as the shape model
does: the validators decide on shapes only (`propFails`, `wfnLocs` of the shape model are reused, not copied), the
wavefunction protocol moves whole arrays between dict keys (`keepLoopE` follows results.py:727-737 line by line).
`Lemmas/ProtocolsElems.lean` proves that forgetting the elements maps every function here onto its shape-model
counterpart (so all C20 theorems transfer) and that elements are never altered.
-/
namespace QcelVerif.Protocols

/-- an array: shape and row-major element sequence -/
structure Arr (π : Type) where
  shape : Shape
  data : π
  deriving Repr, DecidableEq

/-- `np.asarray(v).reshape(..)` with the shape computed by `f`: the row-major elements are untouched -/
def Arr.reshapeWith {π : Type} (f : Shape → Option Shape) (a : Arr π) : Option (Arr π) :=
  (f a.shape).map (fun s => { shape := s, data := a.data })

/-- a list payload has as many elements as the shape says -/
def Arr.WellFormed {α : Type} (a : Arr (List α)) : Prop := a.data.length = prod a.shape

/-! ## AtomicResultProperties -/

structure PropsInE (π : Type) where
  natom : Option Nat
  arr : PropArr → Option (Arr π)

def PropsInE.shapes {π : Type} (p : PropsInE π) : PropsIn :=
  { natom := p.natom, arr := fun k => (p.arr k).map (·.shape) }

def propOutE {π : Type} (p : PropsInE π) (k : PropArr) : Option (Option (Arr π)) :=
  (p.arr k).map (Arr.reshapeWith (applyPropRule p.natom (propRule k)))

/-- `AtomicResultProperties(**p)` -/
def validatePropsE {π : Type} (p : PropsInE π) : Except (List PropArr) (PropsInE π) :=
  match propFails p.shapes with
  | [] => .ok { natom := p.natom, arr := fun k => (propOutE p k).join }
  | l => .error l

/-! ## WavefunctionProperties and the wavefunction protocol -/

structure WfnE (π β : Type) where
  restricted : Option Bool
  basis : Option β
  arr : ArrKey → Option (Arr π)
  ptr : PtrKey → Option ArrKey

def WfnE.shapes {π β : Type} (w : WfnE π β) : Wfn β :=
  { restricted := w.restricted, basis := w.basis, arr := fun k => (w.arr k).map (·.shape), ptr := w.ptr }

def dropBetaE {π β : Type} (w : WfnE π β) : WfnE π β :=
  { w with
    arr := fun k => if k.spin = .b then none else w.arr k
    ptr := fun k => if k.spin = .b then none else w.ptr k }

def setArrE {π β : Type} (w : WfnE π β) (k : ArrKey) (v : Arr π) : WfnE π β :=
  { w with arr := fun k' => if k' = k then some v else w.arr k' }

def setPtrE {π β : Type} (w : WfnE π β) (k : PtrKey) (v : ArrKey) : WfnE π β :=
  { w with ptr := fun k' => if k' = k then some v else w.ptr k' }

/-- the loop `for rk in return_keep` (results.py:727-737): `ret_wfn[rk] = key; ret_wfn[key] = wfn[key]` -/
def keepLoopE {π β : Type} (w : WfnE π β) : List PtrKey → WfnE π β → Except Err (WfnE π β)
  | [], ret => .ok ret
  | rk :: rest, ret =>
    match w.ptr rk with
    | none => keepLoopE w rest ret
    | some key =>
      match w.arr key with
      | none => .error (.validation ["wavefunction"])
      | some v => keepLoopE w rest (setArrE (setPtrE ret rk key) key v)

/-- `AtomicResult._wavefunction_protocol` (results.py:670-741) -/
def wfnProtocolE {π β : Type} (p : WfnProto) (w : WfnE π β) : Except Err (Option (WfnE π β)) :=
  match w.restricted with
  | none => .error (.validation ["wavefunction"])
  | some r =>
    let w1 := if r then dropBetaE w else w
    match p with
    | .none => .ok none
    | p =>
      match keepList p with
      | none => .ok (some w1)
      | some keep =>
        match keepLoopE w1 keep
            { restricted := some r, basis := w1.basis, arr := fun _ => none, ptr := fun _ => none } with
        | .ok ret => .ok (some ret)
        | .error e => .error e

def arrOutE {π β : Type} (nbf : Option Nat) (w : WfnE π β) (k : ArrKey) : Option (Option (Arr π)) :=
  (w.arr k).map (Arr.reshapeWith (applyArrRule nbf (arrRule k.base)))

/-- `WavefunctionProperties(**w)` -/
def validateWfnE {π : Type} (w : WfnE π BasisIn) : Except Err (WfnE π BasisIn) :=
  match basisStage w.basis with
  | .error e => .error e
  | .ok (b', blocs) =>
    match wfnLocs b' blocs w.shapes with
    | [] => .ok { restricted := w.restricted, basis := b',
                  arr := fun k => (arrOutE (b'.bind (·.nbf)) w k).join, ptr := w.ptr }
    | l => .error (.validation l)

/-! ## return_result -/

inductive RRE (π : Type) where
  | scalar (d : π)
  | dict (d : π)
  | arr (a : Arr π)
  deriving Repr, DecidableEq

def RRE.shapes {π : Type} : RRE π → RR
  | .scalar _ => .scalar
  | .dict _ => .dict
  | .arr a => .arr a.shape

/-- `np.asarray(v)` -/
def RRE.asArr {π : Type} : RRE π → Arr π
  | .scalar d => { shape := [], data := d }
  | .dict d => { shape := [], data := d }
  | .arr a => a

def validateRRE {π : Type} (d : Driver) (v : RRE π) : Option (RRE π) :=
  match d with
  | .gradient => (v.asArr.reshapeWith reshapeCols3).map .arr
  | .hessian => (v.asArr.reshapeWith reshapeSquare).map .arr
  | _ => some v

/-! ## AtomicResult -/

structure ARInE (π γ σ : Type) where
  wp : WfnProto
  so : Bool
  nf : NativePolicy
  driver : Driver
  props : PropsInE π
  wfn : Option (WfnE π BasisIn)
  rr : RRE π
  stdout : Option σ
  native : Option (Files γ)

structure AROutE (π γ σ : Type) where
  props : PropsInE π
  wfn : Option (WfnE π BasisIn)
  rr : RRE π
  stdout : Option σ
  native : Files γ

def ARInE.shapes {π γ σ : Type} (i : ARInE π γ σ) : ARIn γ σ :=
  { wp := i.wp, so := i.so, nf := i.nf, driver := i.driver, props := i.props.shapes, wfn := i.wfn.map WfnE.shapes,
    rr := i.rr.shapes, stdout := i.stdout, native := i.native }

def AROutE.shapes {π γ σ : Type} (o : AROutE π γ σ) : AROut γ σ :=
  { props := o.props.shapes, wfn := o.wfn.map WfnE.shapes, rr := o.rr.shapes, stdout := o.stdout, native := o.native }

def wfnFieldE {π : Type} (p : WfnProto) (w : Option (WfnE π BasisIn)) : Except Err (Option (WfnE π BasisIn)) :=
  match w with
  | none => .ok none
  | some w =>
    match wfnProtocolE p w with
    | .error e => .error e
    | .ok none => .ok none
    | .ok (some w1) =>
      match validateWfnE w1 with
      | .ok w2 => .ok (some w2)
      | .error (.validation l) => .error (.validation (l.map (fun s => "wavefunction." ++ s)))
      | .error e => .error e

/-- `AtomicResult(**i)` — same structure as `atomicResult` -/
def atomicResultE {π γ σ : Type} (i : ARInE π γ σ) : Except Err (AROutE π γ σ) :=
  let (pv, plocs) : Option (PropsInE π) × List String :=
    match validatePropsE i.props with
    | .ok p => (some p, [])
    | .error l => (none, l.map (fun k => "properties." ++ k.name))
  match wfnFieldE i.wp i.wfn with
  | .error (.validation wl) =>
    .error (.validation (plocs ++ wl ++ (if (validateRRE i.driver i.rr).isNone then ["return_result"] else [])))
  | .error e => .error e
  | .ok w =>
    match pv, validateRRE i.driver i.rr with
    | some p, some r =>
      .ok { props := p, wfn := w, rr := r, stdout := stdoutProtocol i.so i.stdout,
            native := nativeField i.nf i.native }
    | _, r => .error (.validation (plocs ++ (if r.isNone then ["return_result"] else [])))

end QcelVerif.Protocols
