import QcelVerif.Model.JsonText
/-!
C10 — the CONCRETE float codec the driver runs the JSON text model with (core Lean only, exact integer arithmetic):

* `parseF`  = CPython `float(token)`: the double nearest to the decimal (round-half-even), overflow → ±inf, underflow → ±0.
* `reprF`   = CPython `float.__repr__` (`repr` style 'r' of `PyOS_double_to_string`): the SHORTEST digit string that
  reads back to the same double (for n = 1..17: the n-digit decimal nearest to the value; the first n whose decimal
  reads back), laid out as CPython does (fixed notation for −4 < decpt ≤ 16, otherwise `d[.ddd]e±XX`).

Nothing is PROVED about these two functions.  The theorems of `Props/C10Text.lean` are stated for an arbitrary codec and
need only `floatOk codec b` for the floats that occur; the driver EVALUATES `floatOk concreteCodec b` for every float it
prints (a failed check is reported, never ignored), and the harness compares the printed text byte-for-byte with
`json.dumps`, so a wrong digit here shows as a disagreement.
-/
namespace QcelVerif.Ser.F64
open QcelVerif.Ser

/-- round-half-even of `a / b` (`b > 0`) -/
def rhe (a b : Nat) : Nat :=
  let q := a / b
  let r := a % b
  if 2 * r < b then q else if b < 2 * r then q + 1 else if q % 2 = 0 then q else q + 1

/-- bit pattern (sign bit clear) of the double nearest to `n / d` (`n, d > 0`); overflow gives the bits of +inf -/
def roundBits (n d : Nat) : Nat :=
  let l0 : Int := (Nat.log2 n : Int) - (Nat.log2 d : Int)
  let ge : Bool := if l0 ≥ 0 then decide (n ≥ d * 2 ^ l0.toNat) else decide (n * 2 ^ (-l0).toNat ≥ d)
  let l : Int := if ge then l0 else l0 - 1                         -- floor (log2 (n/d))
  let e : Int := if l - 52 < -1074 then -1074 else l - 52
  let q0 : Nat := if e ≥ 0 then rhe n (d * 2 ^ e.toNat) else rhe (n * 2 ^ (-e).toNat) d
  let q : Nat := if q0 = 2 ^ 53 then 2 ^ 52 else q0
  let e' : Int := if q0 = 2 ^ 53 then e + 1 else e
  if q < 2 ^ 52 then q
  else if e' > 971 then 2047 * 2 ^ 52
  else (e' + 1075).toNat * 2 ^ 52 + (q - 2 ^ 52)

/-- sign, integer mantissa, decimal exponent of a number token `-?digits[.digits][(e|E)[+-]digits]` -/
def parseDec (t : List Char) : Option (Bool × Nat × Int) :=
  let neg := t.head? == some '-'
  let u := dropMinus t
  let ip := u.takeWhile Char.isDigit
  let r := u.dropWhile Char.isDigit
  if ip.isEmpty then none
  else
    let fs := match r with
      | c :: t' => if c = '.' then t'.takeWhile Char.isDigit else []
      | [] => []
    let r1 := match r with
      | c :: t' => if c = '.' then t'.dropWhile Char.isDigit else r
      | [] => []
    let m := Nat.ofDigitChars 10 (ip ++ fs) 0
    match r1 with
    | [] => some (neg, m, -(fs.length : Int))
    | c :: t' =>
      if c = 'e' ∨ c = 'E' then
        let eneg := t'.head? == some '-'
        let ds := dropSign t'
        if ds.isEmpty ∨ ¬ ds.all Char.isDigit then none
        else
          let ex : Int := (Nat.ofDigitChars 10 ds 0 : Nat)
          some (neg, m, (if eneg then -ex else ex) - (fs.length : Int))
      else none

def parseF (t : List Char) : Option Bytes :=
  match parseDec t with
  | none => none
  | some (neg, m, e10) =>
    let mb := if m = 0 then 0 else if e10 ≥ 0 then roundBits (m * 10 ^ e10.toNat) 1 else roundBits m (10 ^ (-e10).toNat)
    some (beBytes 8 (mb + (if neg then 2 ^ 63 else 0)))

def findJ (n d : Nat) : Nat → Nat → Nat
  | 0, j => j
  | f + 1, j => if n * 10 ^ j ≥ d then j else findJ n d f (j + 1)

def stripZerosR (l : List Char) : List Char := (l.reverse.dropWhile (· == '0')).reverse

/-- shortest digits and decimal point position (`value = 0.DIGITS × 10^decpt`) of the positive double `n / d` with bits `mb` -/
def shortest (n d mb : Nat) : List Char × Int :=
  let ipLen : Nat := (Nat.toDigits 10 (n / d)).length
  let p : Int := if n ≥ d then (ipLen : Int) else 1 - ((findJ n d 400 1 : Nat) : Int)
  let try1 (k : Nat) : Nat × Bool :=
    let s : Int := (k : Int) - p
    let dd := if s ≥ 0 then rhe (n * 10 ^ s.toNat) d else rhe n (d * 10 ^ (-s).toNat)
    let back := if s ≥ 0 then roundBits dd (10 ^ s.toNat) else roundBits (dd * 10 ^ (-s).toNat) 1
    (dd, dd != 0 && back == mb)
  let rec go : Nat → Nat → Nat × Nat
    | 0, k => ((try1 k).1, k)
    | f + 1, k => if (try1 k).2 then ((try1 k).1, k) else go f (k + 1)
  let (dd, k) := go 16 1
  let ds := Nat.toDigits 10 dd
  (stripZerosR ds, p + (ds.length : Int) - (k : Int))

def zeros (n : Nat) : List Char := List.replicate n '0'

/-- `float.__repr__` of a finite double -/
def reprF (b : Bytes) : List Char :=
  let bits : Nat := beNat b
  let neg : Bool := decide (bits ≥ 2 ^ 63)
  let mb : Nat := bits % 2 ^ 63
  let sgn : List Char := if neg then ['-'] else []
  if mb = 0 then sgn ++ ['0', '.', '0']
  else
    let ef : Nat := mb / 2 ^ 52
    let fr : Nat := mb % 2 ^ 52
    let m : Nat := if ef = 0 then fr else 2 ^ 52 + fr
    let e : Int := if ef = 0 then -1074 else (ef : Int) - 1075
    let n : Nat := if e ≥ 0 then m * 2 ^ e.toNat else m
    let d : Nat := if e ≥ 0 then 1 else 2 ^ (-e).toNat
    let (ds, decpt) := shortest n d mb
    let nd : Int := ds.length
    if decpt ≤ -4 ∨ decpt > 16 then
      let ex := decpt - 1
      let es := Nat.toDigits 10 ex.natAbs
      let es := if es.length < 2 then '0' :: es else es
      let mant := match ds with
        | [] => []
        | [c] => [c]
        | c :: r => c :: '.' :: r
      sgn ++ mant ++ ['e', (if ex < 0 then '-' else '+')] ++ es
    else if decpt ≤ 0 then sgn ++ ['0', '.'] ++ zeros (-decpt).toNat ++ ds
    else if decpt ≥ nd then sgn ++ ds ++ zeros (decpt - nd).toNat ++ ['.', '0']
    else sgn ++ ds.take decpt.toNat ++ ['.'] ++ ds.drop decpt.toNat

def concreteCodec : FloatCodec := { reprF := reprF, parseF := parseF }

end QcelVerif.Ser.F64
