#!/bin/bash
# tools/keep_seed.sh C10 1 "<what I ran / result>" : store a confirmed seeded change under /verif/seeded/<id>-<k>/
P=$1; K=$2; NOTE=$3; R=${ROUND:-1}; if [ "$R" = "1" ]; then S=/tmp/seed_$P/out; N=$K; else S=/tmp/seed${R}_$P/out; N=$((K + 2*(R-1))); fi; T=/verif/seeded/$P-$N
mkdir -p $T; cp $S/patch$K.diff $T/patch.diff; cp $S/demo$K.py $T/demo.py
python3 - "$S/meta$K.json" "$T/meta.json" "$NOTE" <<'PY'
import json,sys
m=json.load(open(sys.argv[1])); m["confirmed_by_me"]=sys.argv[3]
json.dump(m,open(sys.argv[2],"w"),indent=1)
PY
echo kept $T
