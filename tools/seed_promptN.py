#!/usr/bin/env python3
"""Round-N (N>=3) seeder brief: seed_prompt.py + the one-line summaries of all earlier seeds, asking for new mechanisms.
usage: seed_promptN.py C11 3"""
import json, sys, subprocess, glob
pid, rnd = sys.argv[1], int(sys.argv[2])
base = subprocess.check_output(["python3", "/verif/tools/seed_prompt.py", pid]).decode()
base = base.replace(f"/tmp/seed_{pid}", f"/tmp/seed{rnd}_{pid}")
prev = []
for f in sorted(glob.glob(f"/verif/seeded/{pid}-*/meta.json")):
    m = json.load(open(f)); prev.append("- " + m.get("summary", "")[:400] + " [needs: " + str(m.get("what_it_needs_to_manifest", ""))[:200] + "]")
extra = (f"\nROUND {rnd}. Earlier seeded changes for this property (all of them were eventually detected) were:\n" + "\n".join(prev) +
         "\nProduce two NEW changes in different mechanisms / code paths / files from ALL of those, and make them HARD to notice: prefer "
         "(a) edits in code paths reached only through a less common public entry point, option or argument type the property still covers, "
         "(b) state carried between calls (caches, module-level objects, class attributes, mutated arguments, aliasing of returned objects), "
         "(c) numeric edits whose effect is small but above the tolerance the property states, or that bite only near a threshold, "
         "(d) edits that are correct for all 'typical' sizes and wrong only at a boundary (empty, one element, maximal, equal values, exact ties, "
         "first/last index, a specific element or table row), (e) two cooperating edits in different files that each look fine alone, "
         "(f) an edit to a helper in another module that this behaviour depends on indirectly. Avoid changes that alter results for ordinary inputs. "
         "Read the anchored code closely first and look for the places where a plausible refactor is subtly wrong.\n")
print(base.replace("\nFor each change k in", extra + "\nFor each change k in"))
