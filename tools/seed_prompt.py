#!/usr/bin/env python3
"""Prints the brief for an independent 'seeder' (given only the property text and a scratch worktree)."""
import json, sys
pid = sys.argv[1]
props = {json.loads(l)["id"]: json.loads(l) for l in open("/verif/properties.jsonl") if l.strip()}
p = props[pid]
wt = f"/tmp/seed_{pid}/wt"
print(f"""You are testing how well a verification effort can detect realistic regressions in the Python library QCElemental. You work ONLY in your own scratch git worktree of the repository at {wt} (already created for you from the current HEAD) and in /tmp/seed_{pid}/out (create it). Do NOT read or touch /verif, and do NOT modify /repo itself (no commits, no edits there).

THE PROPERTY (this is all you are given about what is being verified):
TITLE: {p['title']}
STATEMENT: {p['statement']}
QUANTIFIER: {p['quantifier']['text']}
CODE ANCHORS: {p['anchors']['files']}

YOUR TASK: produce TWO independent, different changes to the library source (in different mechanisms/places if possible), each of which BREAKS this property while the code still imports and the existing test suite still passes. Make them realistic regressions a maintainer could plausibly introduce (an off-by-one, a wrong branch, a swapped argument, a stale cache, a tolerance change, a reordered step, a copy-paste slip, an 'optimisation' that is wrong for a corner of the input space …). IMPORTANT: prefer changes that need something specific to manifest — an unusual input, a particular branch or option combination, a multi-step sequence of operations, a specific size/ordering, or two cooperating edits that each look fine alone — NOT ones that ordinary use or a trivial smoke test would expose at once.

For each change k in {{1, 2}}:
 1. Start from a clean worktree (`git -C {wt} checkout -- .`), make the edit(s) in {wt}.
 2. Confirm the existing suite still passes with the change: `cd {wt} && /venv/bin/python -m pytest -q -p no:cacheprovider --timeout=900 -n 8 2>&1 | tail -3` (it must report the same pass count as the clean tree: run it once on the clean worktree first; make sure `cd {wt} && /venv/bin/python -c "import qcelemental; print(qcelemental.__file__)"` prints a path under {wt}).
 3. Write a small demonstration script /tmp/seed_{pid}/out/demo{{k}}.py that uses only the public behaviour named in the property, exits 0 on the unchanged library and exits 1 (printing what went wrong) with your change. It is run as `cd <checkout> && /venv/bin/python /tmp/seed_{pid}/out/demo{{k}}.py`, so it must import qcelemental from the current directory. Verify both outcomes yourself (clean worktree → exit 0; changed → exit 1).
 4. Save the change as /tmp/seed_{pid}/out/patch{{k}}.diff (`git -C {wt} diff > …`), and write /tmp/seed_{pid}/out/meta{{k}}.json with keys: "property" ("{pid}"), "summary" (one line), "what_it_needs_to_manifest" (the specific input/sequence/option), "files" (edited files), "suite_result_with_change" (the pytest tail line), "demo_clean_exit" and "demo_changed_exit".
 5. Restore the worktree (`git -C {wt} checkout -- .`).

Python is /venv/bin/python (numpy 2.x; no scipy/networkx). Never use `git stash` (the stash is shared between worktrees and other people are working in sibling worktrees); use `git diff > file` and `git checkout -- .` instead. No network. Keep it to roughly 45 minutes. Final message: a short plain-text summary of the two changes, what each needs to manifest, and the confirmation results.""")
