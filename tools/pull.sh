#!/bin/bash
# tools/pull.sh C10 : copy a builder's own files (everything except shared files) into /verif
P=$1; W=${2:-/tmp/w$P}/verif   # optional second argument: the builder's directory
lc=$(echo $P | tr A-Z a-z)
for f in $(/verif/tools/integrate.sh $P ${2:-/tmp/w$P} | grep -v -E '^(MANIFEST.json|known_findings.json|harness/run.py|harness/common.py|harness/BUILDING.md|check|tools/(mk_manifest.py|agent_prompt.py|seed_prompt.py|integrate.sh|pull.sh|lk|try_seed.sh|keep_seed.sh|gen_periodic.py)|harness/c05.py|DESIGN.md|\.gitignore)'); do
  # only files that are new, or that belong to this property by name: a builder's copy holds OLD versions of
  # every other file, and copying those back would revert later work
  if [ -e /verif/$f ] && ! echo "$f" | grep -qi -E "$P|$lc"; then echo "SKIPPED (exists, not $P's): $f"; continue; fi
  mkdir -p /verif/$(dirname $f); cp $W/$f /verif/$f; echo "copied $f"
done
echo "--- known findings in the builder's copy:"
python3 -c "
import json;d=json.load(open('$W/known_findings.json'))
for k in d.get('findings',[]): print(json.dumps(k))"
