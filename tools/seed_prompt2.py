#!/usr/bin/env python3
"""Round-2 seeder brief: like seed_prompt.py, plus the one-line summaries of the round-1 seeds to avoid repeats."""
import json, sys, subprocess, glob
pid = sys.argv[1]
base = subprocess.check_output(["python3", "/verif/tools/seed_prompt.py", pid]).decode()
base = base.replace(f"/tmp/seed_{pid}", f"/tmp/seed2_{pid}")
prev = []
for f in sorted(glob.glob(f"/verif/seeded/{pid}-*/meta.json")):
    m = json.load(open(f)); prev.append("- " + m.get("summary", "") + " [needs: " + str(m.get("what_it_needs_to_manifest", ""))[:200] + "]")
extra = ("\nROUND 2. Earlier seeded changes for this property (all of them were detected) were:\n" + "\n".join(prev) +
         "\nProduce two NEW changes in different mechanisms / code paths from those, and make them HARDER to notice: prefer "
         "(a) edits in code paths reached only through a less common public entry point or option, (b) state carried between calls "
         "(caches, module-level objects, mutated arguments), (c) numeric edits whose effect is small but above the tolerance the property "
         "states, (d) edits that are correct for all 'typical' sizes and wrong only at a boundary (empty, one element, maximal, equal values, "
         "exact ties), (e) two cooperating edits in different files. Avoid changes that alter results for ordinary inputs.\n")
print(base.replace("\nFor each change k in", extra + "\nFor each change k in"))
