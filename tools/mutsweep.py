#!/venv/bin/python
"""Systematic mutation sweep over the code a property is anchored in (complements the LLM-written seeded changes).

    tools/mutsweep.py C05 --n 12 --seed 0 --verif /tmp/msw/verif --out /tmp/msw/out

For the property's anchor ranges (properties.jsonl: anchors.mechanism[].where) it enumerates token-level mutation sites
(comparison / arithmetic / boolean operator swaps, True<->False, min<->max, any<->all, integer +-1, float tolerance x2,
`not` removal), samples --n of them with the PRNG seeded by --seed, and for each mutant:
  1. writes it into a scratch copy of /repo (never /repo itself);
  2. runs the repository's own suite there (a mutant the suite kills is of no interest: status `suite`);
  3. runs `<verif copy>/check Cxx --tier quick` with QCEL_REPO pointing at the scratch copy;
  4. records `caught` (VIOLATION with a replay), `caught-nfif` (VIOLATION ... no-failing-input-found), `SURVIVED` (OK),
     or `error` (exit 2 / timeout) as one JSON line in <out>/<Cxx>.jsonl, and keeps the diff of every survivor.
The check is run from a PRIVATE copy of /verif (--verif) because translators write lean/QcelVerif/Gen/ in place.
Survivors are either equivalent mutants (behaviour unchanged inside the property's quantifier) or detection gaps; they are
triaged by hand and the outcome is recorded in DESIGN.md.
"""
import argparse, io, json, os, random, re, shutil, subprocess, sys, time, tokenize, difflib
from pathlib import Path

REPO = Path("/repo")
PROPS = {json.loads(l)["id"]: json.loads(l) for l in open("/verif/properties.jsonl") if l.strip()}


def anchor_ranges(pid):
    res = {}
    for m in PROPS[pid]["anchors"]["mechanism"]:
        for part in m["where"].split(";"):
            part = part.strip()
            if ":" not in part:
                continue
            f, rs = part.split(":", 1)
            for r in rs.split(","):
                r = r.strip()
                if not r:
                    continue
                a, _, b = r.partition("-")
                res.setdefault(f.strip(), []).append((int(a), int(b or a)))
    return res


SWAP_OP = {"<": ["<=", ">"], "<=": ["<", ">="], ">": [">=", "<"], ">=": [">", "<="], "==": ["!="], "!=": ["=="],
           "+": ["-"], "-": ["+"], "*": ["/"], "/": ["*"], "//": ["/"], "%": ["//"], "+=": ["-="], "-=": ["+="], "*=": ["/="]}
SWAP_NAME = {"True": ["False"], "False": ["True"], "and": ["or"], "or": ["and"], "min": ["max"], "max": ["min"],
             "any": ["all"], "all": ["any"], "argmin": ["argmax"], "argmax": ["argmin"], "floor": ["ceil"], "ceil": ["floor"],
             "isclose": ["allclose"], "real": ["imag"], "break": ["continue"], "upper": ["lower"], "lower": ["upper"],
             "append": ["insert(0, "], "sorted": ["list"], "abs": ["float"], "reversed": ["iter"]}


def sites(path: Path, ranges):
    src = path.read_text()
    toks = list(tokenize.generate_tokens(io.StringIO(src).readline))
    out = []
    depth_stack = []
    for i, t in enumerate(toks):
        line = t.start[0]
        if not any(a <= line <= b for a, b in ranges):
            continue
        prev = toks[i - 1] if i else None
        nxt = toks[i + 1] if i + 1 < len(toks) else None
        if t.type == tokenize.OP and t.string in SWAP_OP:
            # binary use only: previous token ends an operand
            if prev is None or not (prev.type in (tokenize.NAME, tokenize.NUMBER, tokenize.STRING) or prev.string in (")", "]", "}")):
                continue
            if prev.type == tokenize.NAME and prev.string in ("return", "in", "and", "or", "not", "if", "else", "lambda", "print", "yield", "import"):
                continue
            if t.string in ("*", "/") and nxt is not None and nxt.string in (",", ")"):
                continue
            if t.string == "%" and prev.type == tokenize.STRING:
                continue
            if t.string == "+" and (prev.type == tokenize.STRING or (nxt is not None and nxt.type == tokenize.STRING)):
                continue
            for r in SWAP_OP[t.string]:
                out.append((i, r, f"{t.string} -> {r}"))
        elif t.type == tokenize.NAME and t.string in SWAP_NAME:
            if t.string in ("append",) and (nxt is None or nxt.string != "("):
                continue
            if t.string in ("real", "imag", "upper", "lower", "append", "argmin", "argmax") and (prev is None or prev.string != "."):
                continue
            if t.string in ("min", "max", "any", "all", "abs", "sorted", "reversed") and prev is not None and prev.string == "." and toks[i - 2].string not in ("np", "numpy", "math"):
                continue
            for r in SWAP_NAME[t.string]:
                if r.endswith("(0, "):
                    continue  # needs paren surgery; skipped
                out.append((i, r, f"{t.string} -> {r}"))
            if t.string == "not" and nxt is not None and nxt.string != "in":
                pass
        elif t.type == tokenize.NAME and t.string == "not" and nxt is not None and nxt.string not in ("in",) and (prev is None or prev.string != "is"):
            out.append((i, "", "not removed"))
        elif t.type == tokenize.NUMBER:
            s = t.string
            # format specs / indices inside strings are not NUMBER tokens, so these are genuine literals
            try:
                if re.fullmatch(r"\d+", s):
                    n = int(s)
                    out.append((i, str(n + 1), f"{s} -> {n+1}"))
                    if n > 0:
                        out.append((i, str(n - 1), f"{s} -> {n-1}"))
                elif re.fullmatch(r"[\d.]+([eE][-+]?\d+)?", s):
                    x = float(s)
                    out.append((i, repr(x * 2), f"{s} -> {x*2!r}"))
                    out.append((i, repr(x * 0.5), f"{s} -> {x*0.5!r}"))
            except ValueError:
                pass
    return src, toks, out


def apply(src, toks, site):
    i, repl, _ = site
    t = toks[i]
    lines = src.splitlines(keepends=True)
    (r0, c0), (r1, c1) = t.start, t.end
    assert r0 == r1
    ln = lines[r0 - 1]
    new = ln[:c0] + repl + ln[c1:]
    if repl == "":
        new = ln[:c0] + ln[c1:].lstrip(" ")
    lines[r0 - 1] = new
    return "".join(lines)


def sh(cmd, cwd=None, timeout=600, env=None):
    try:
        p = subprocess.run(cmd, cwd=cwd, shell=isinstance(cmd, str), capture_output=True, text=True, timeout=timeout, env=env)
        return p.returncode, p.stdout + p.stderr
    except subprocess.TimeoutExpired as e:
        return 124, "TIMEOUT " + str(e)[:200]


def main():
    ap = argparse.ArgumentParser()
    ap.add_argument("pid")
    ap.add_argument("--n", type=int, default=10)
    ap.add_argument("--seed", type=int, default=0)
    ap.add_argument("--verif", default="/tmp/msw/verif")
    ap.add_argument("--out", default="/tmp/msw/out")
    ap.add_argument("--tier", default="quick")
    a = ap.parse_args()
    pid = a.pid.upper()
    out = Path(a.out)
    out.mkdir(parents=True, exist_ok=True)
    (out / "survivors").mkdir(exist_ok=True)
    rng = random.Random(f"{pid}-{a.seed}")
    allsites = []
    for f, rs in anchor_ranges(pid).items():
        p = REPO / f
        if not p.exists():
            continue
        src, toks, ss = sites(p, rs)
        allsites += [(f, src, toks, s) for s in ss]
    rng.shuffle(allsites)
    chosen, seen_lines = [], {}
    for f, src, toks, s in allsites:  # spread: at most 2 mutants per source line
        key = (f, toks[s[0]].start[0])
        if seen_lines.get(key, 0) >= 2:
            continue
        seen_lines[key] = seen_lines.get(key, 0) + 1
        chosen.append((f, src, toks, s))
        if len(chosen) >= a.n:
            break
    print(f"{pid}: {len(allsites)} sites, {len(chosen)} sampled", flush=True)
    scratch = Path(f"/tmp/msw/repo_{pid}_{os.getpid()}")
    log = open(out / f"{pid}.jsonl", "a")
    for k, (f, src, toks, s) in enumerate(chosen):
        line = toks[s[0]].start[0]
        rec = {"property": pid, "file": f, "line": line, "mutation": s[2], "seed": a.seed, "source_line": src.splitlines()[line - 1].strip()[:200]}
        mutated = apply(src, toks, s)
        if scratch.exists():
            shutil.rmtree(scratch)
        subprocess.run(["rsync", "-a", "--exclude", ".git", str(REPO) + "/", str(scratch) + "/"], check=True)
        (scratch / f).write_text(mutated)
        rc, o = sh(["/venv/bin/python", "-c", "import qcelemental"], cwd=scratch, timeout=120)
        if rc != 0:
            rec["status"] = "import-fails"
        else:
            rc, o = sh("/venv/bin/python -m pytest -q -x -p no:cacheprovider --timeout=120 -n 4 2>&1 | tail -3", cwd=scratch, timeout=900)
            m = re.search(r"(\d+) passed", o)
            if "failed" in o or "error" in o.lower() or not m or int(m.group(1)) < 1144:
                rec["status"] = "suite"
            else:
                t0 = time.time()
                env = dict(os.environ, QCEL_REPO=str(scratch))
                rc, o = sh(["./check", pid, "--tier", a.tier], cwd=a.verif, timeout=2400, env=env)
                rec["check_wall_s"] = round(time.time() - t0)
                vl = [l for l in o.splitlines() if l.startswith("VIOLATION")]
                if vl:
                    rec["status"] = "caught-nfif" if vl[0].rstrip().endswith("no-failing-input-found") else "caught"
                    try:
                        rp = json.load(open(vl[0].split("replay=")[1].split()[0]))
                        rec["kind"] = rp.get("kind")
                    except Exception:
                        pass
                elif rc == 0:
                    rec["status"] = "SURVIVED"
                    d = "".join(difflib.unified_diff(src.splitlines(keepends=True), mutated.splitlines(keepends=True), "a/" + f, "b/" + f, n=2))
                    (out / "survivors" / f"{pid}_{a.seed}_{k}.diff").write_text(d)
                    rec["diff"] = f"survivors/{pid}_{a.seed}_{k}.diff"
                else:
                    rec["status"] = f"error(rc={rc})"
                    rec["tail"] = o[-400:]
        print(json.dumps(rec), flush=True)
        log.write(json.dumps(rec) + "\n")
        log.flush()
    if scratch.exists():
        shutil.rmtree(scratch)


if __name__ == "__main__":
    main()
