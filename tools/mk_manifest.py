#!/venv/bin/python
"""Regenerates MANIFEST.json from the property modules present in harness/ (run by hand after adding a property)."""
import importlib, json, sys
if not sys.executable.startswith("/venv"):  # harness modules import numpy/qcelemental: must run under /venv
    import os; os.execv("/venv/bin/python", ["/venv/bin/python"] + sys.argv)
from pathlib import Path
V = Path(__file__).resolve().parent.parent
sys.path.insert(0, str(V / "harness"))
props = [json.loads(l) for l in (V / "properties.jsonl").read_text().splitlines() if l.strip()]
checks, na, served = [], [], []
for p in props:
    pid = p["id"]
    try:
        import common; mod = common.load_property(pid)
    except ModuleNotFoundError:
        na.append({"property_id": pid, "reason": "not built yet in this round (no Lean model / check committed so far); see DESIGN.md §2 for the plan"})
        continue
    served.append(pid)
    checks.append({
        "property_id": pid,
        "quick_cmd": f"./check {pid} --tier quick",
        "thorough_cmd": f"./check {pid} --tier thorough",
        "evidence_file": f"evidence/{pid}.json",
        "replay_cmd_template": f"./check {pid} --replay {{path}}",
        "engine": "lean-model+correspondence",
        "level_claimed": {
            "category": "proof",
            "text": getattr(mod, "LEVEL_TEXT", "Lean 4 theorems about a model of the code, tied to /repo by translator and/or differential correspondence; see level_note"),
            "design_ref": f"DESIGN.md §2 {pid}",
        },
        "level_note": "; ".join(mod.TRUSTED_BASE + ["ASSUMES: " + a for a in getattr(mod, "ASSUMPTIONS", [])]),
        "technique": getattr(mod, "TECHNIQUE", "Lean 4 machine-checked proof over a hand-written model + behavioural correspondence (line protocol) + property oracle for failing-input search"),
    })
man = {
    "version": 1,
    "setup_cmd": "./check --setup",
    "hooks": {
        "guard": "QCEL_VERIF",
        "enable": "QCEL_VERIF=1 in the environment (set by ./check); no source hooks are needed so far",
        "baseline_off_cmd": "cd /repo && env -u QCEL_VERIF /venv/bin/python -m pytest -ra -q -p no:cacheprovider --timeout=900 --continue-on-collection-errors",
        "source_commits": json.loads((V / "hooks.json").read_text())["source_commits"] if (V / "hooks.json").exists() else [],
        "add_only": True,
    },
    "engines": [
        {"name": "lean-model", "path": "lean/", "serves_properties": served, "kind_free_text": "Lean 4 models, theorems, audits (#print axioms) and line-protocol drivers"},
        {"name": "translators", "path": "tools/", "serves_properties": [p for p in served if p in ("C01", "C02", "C17", "C03")], "kind_free_text": "regenerate Lean tables from /repo data files on every run"},
        {"name": "correspondence", "path": "harness/", "serves_properties": served, "kind_free_text": "differential model-vs-implementation harness + property oracles + known-findings matcher"},
    ],
    "checks": checks,
    "notes": "Technique family: machine-checked proof in Lean 4. A broken proof/correspondence without a concrete failing input is reported as VIOLATION ... no-failing-input-found. Exit 2 = harness crash/timeout.",
    "not_applicable": na,
}
(V / "MANIFEST.json").write_text(json.dumps(man, indent=1) + "\n")
try:
    import jsonschema
    jsonschema.validate(man, json.loads(Path("/root/.vp/MANIFEST.schema.json").read_text()))
    print("MANIFEST valid;", len(checks), "checks;", len(na), "not_applicable")
except ImportError:
    print("written (jsonschema unavailable)")
