#!/bin/bash
# tools/rerun_seeded.sh <verif copy> C05-3 C11-7 ... : regression of kept seeded changes against the CURRENT checks.
# For each id: scratch copy of /repo + seeded/<id>/patch.diff, then `<verif copy>/check <Cxx> --tier quick` with QCEL_REPO on it
# (run from a PRIVATE copy of /verif: translators write lean/QcelVerif/Gen in place).  Prints one line per id.
V=$1; shift
for ID in "$@"; do
  P=${ID%%-*}; D=/tmp/reseed_$ID; rm -rf $D; mkdir -p $D; rsync -a --exclude .git /repo/ $D/repo/
  ( cd $D/repo && patch -p1 -s < /verif/seeded/$ID/patch.diff ) || { echo "$ID PATCH-FAILED"; rm -rf $D; continue; }
  L=$( cd $V && QCEL_REPO=$D/repo timeout 3000 ./check $P --tier quick 2>/dev/null | grep -E "^(OK|VIOLATION)" | tail -1 | cut -c1-160 )
  echo "$ID  ${L:-NO-VERDICT}"
  rm -rf $D
done
