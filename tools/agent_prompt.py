#!/usr/bin/env python3
"""Prints the builder prompt for one property (used to brief parallel builders)."""
import json, sys
pid = sys.argv[1]
extra = sys.argv[2] if len(sys.argv) > 2 else ""
props = {json.loads(l)["id"]: json.loads(l) for l in open("/verif/properties.jsonl") if l.strip()}
p = props[pid]
print(f"""You are building one part of a verification framework — machine-checked proof in Lean 4 plus a differential correspondence check — for the Python library QCElemental, checked out at /repo. /repo and /verif are READ-ONLY for you: never modify, commit or stash anything there.

SETUP: run `mkdir -p /tmp/w{pid} && cp -r /verif /tmp/w{pid}/verif` and work ONLY inside /tmp/w{pid}/verif (a complete private working copy, including a pre-built lake project in lean/). First read, in that copy: harness/BUILDING.md (conventions and the harness API — follow it exactly), the worked example C05 (files listed there; run `./check C05 --tier quick` once to see the flow), DESIGN.md §1 and the subsection "### {pid}" of §2 (the plan for your property: model, theorems, tie, oracle — you may cut it back, honestly, but keep its spirit).

YOUR PROPERTY {pid} — {p['title']}
STATEMENT: {p['statement']}
QUANTIFIER: {p['quantifier']['text']}
WHY TESTS CANNOT SETTLE IT: {p['why_tests_cant']}
CODE ANCHORS: files {p['anchors']['files']}; mechanisms {[(m['name'], m['where']) for m in p['anchors']['mechanism']]}

DELIVERABLES (new files only): lean/QcelVerif/Model/<Name>.lean, lean/QcelVerif/Lemmas/<Name>.lean (optional), lean/QcelVerif/Props/{pid}.lean, lean/QcelVerif/Driver/{pid}.lean, harness/{pid.lower()}.py. Do NOT edit shared files (harness/common.py, harness/run.py, lean/QcelVerif/Lib/*, check, MANIFEST.json, tools/*, anything belonging to another property); if you need a shared helper, put it in a new file of your own and say so in your report.

PRIORITIES, in this order:
 1. A faithful executable Lean model of the code that exists (read the anchored source carefully, line by line), a line-protocol driver, and a harness whose generator + correspondence diff + independent Python oracle detect realistic bugs — subtle ones that need an unusual input, a particular branch or a multi-step sequence — with ZERO false alarms on the unchanged tree. The oracle must demand exactly what the property statement says for inputs inside the quantifier, no more.
 2. Real theorems that hold for ALL inputs (no size bounds), stating the clauses of the property about the model. Prefer a few genuinely proved, meaningful, non-vacuous theorems over many shallow ones. Absolutely no sorry/admit/axiom/native_decide/bv_decide/implemented_by/unsafe; axioms must stay within propext, Classical.choice, Quot.sound. If a clause cannot be proved in the time you have, state what you did prove as `…_partial` with a `-- FULL:` comment; never weaken silently, never fake.
 3. Evidence quality: meaningful `RULE`, `out.nontrivial(...)` keys, `out.count(...)` distribution of branches/error kinds hit, a handful of `out.sample(...)`.

MUST-PASS BEFORE YOU FINISH: `./check {pid} --tier quick` prints `OK …` and exits 0 with VERIF_SEED=0, 1 and 2 (≤ ~3 min each); `./check {pid} --tier thorough` passes once (≤ ~20 min); at least three hand-made realistic mutants of the anchored code, each in a scratch copy (`rsync -a --exclude .git /repo/ /tmp/w{pid}/repo/`, edit, `QCEL_REPO=/tmp/w{pid}/repo ./check {pid} --tier quick`) produce a `VIOLATION property={pid} replay=…` line with a concrete failing input, and `./check {pid} --replay <file>` reproduces it. Delete scratch repo copies afterwards.

ENVIRONMENT: Lean 4.33 + Mathlib (import single modules only; first Mathlib import takes ~1 min); `lake build <Module>` inside lean/ ; the String API of this Lean version differs from older ones — use the List-Char helpers in lean/QcelVerif/Lib/Proto.lean; drivers run via `lake env lean --run` (the harness does it). Python is /venv/bin/python (numpy 2.x, pydantic v2 with the v1 shim, pint, msgpack, jsonschema, hypothesis; NO scipy, NO networkx). No network. 16 cores shared with ~10 other builders, so keep builds modest. If you find that QCElemental itself violates the property on some input (model and code agree, or the oracle fails on the unchanged tree), do NOT loosen anything: give the failing class its own specific Finding kind, prove the counter-example in Lean if cheap, and report it to me with a minimal reproducer — I decide whether it becomes a fix or a known finding. Until I do, make the harness tolerate exactly that narrowly-matched class via `known_predicate` and a local `known_findings.json` entry of the form {{"id": "...", "property": "{pid}", "kind": "<kind>", "what": "<one line>", "status": "open"}} (see run.py for how it is matched), so the check exits 0 with a KNOWN-FINDING line.
{extra}
Aim to finish within roughly 3 hours of wall-clock; if you are running out, stop adding scope and make what exists solid. FINAL REPORT (your last message, plain text): files created; each theorem's name and plain-words statement, marking partial ones; what is modelled vs. only differentially checked; generator scope and sizes; wall times; seeds run; mutants tried and whether caught (with the kind that fired); any genuine defects found in /repo with reproducers; anything you would want changed in shared code. Leave /tmp/w{pid}/verif in place when done.""")
