#!/bin/bash
# tools/try_seed.sh C10 1 [tier] : confirm a seeded change (demo passes on /repo, fails with the patch, suite still green)
# and run the property's check against a scratch copy with the patch applied.  VERIF_DIR=<private copy of /verif> runs the check from
# that copy (translators write lean/QcelVerif/Gen in place, so trials must not share /verif with registered runs).
P=$1; K=$2; TIER=${3:-quick}; R=${ROUND:-1}; if [ "$R" = "1" ]; then S=/tmp/seed_$P/out; else S=/tmp/seed${R}_$P/out; fi; D=/tmp/try_${P}_${R}_$K
rm -rf $D; mkdir -p $D; rsync -a --exclude .git /repo/ $D/repo/
( cd $D/repo && patch -p1 -s < $S/patch$K.diff ) || { echo "PATCH-FAILED"; exit 3; }
( cd /repo && /venv/bin/python $S/demo$K.py >/dev/null 2>&1 ); echo "demo on /repo: exit $?"
( cd $D/repo && /venv/bin/python $S/demo$K.py >$D/demo.out 2>&1 ); echo "demo with patch: exit $?"
( cd $D/repo && /venv/bin/python -m pytest -q -p no:cacheprovider --timeout=900 -n 4 2>&1 | tail -1 )
( cd ${VERIF_DIR:-/verif} && QCEL_REPO=$D/repo timeout 3000 ./check $P --tier $TIER 2>$D/check.err | cut -c1-300 ); echo "check exit: ${PIPESTATUS[0]}"
rm -rf $D/repo
