#!/bin/bash
# integrate a builder's private copy:  tools/integrate.sh C15   (lists differing files, copies the new ones)
P=$1; W=${2:-/tmp/w$P}/verif
cd "$W" || exit 1
rsync -rcn --out-format='%n' --exclude .lake --exclude .work --exclude .audit --exclude replays --exclude __pycache__ --exclude 'lean/QcelVerif/Gen' --exclude .git --exclude 'evidence' --exclude '.lake.lock' ./ /verif/ | grep -v '/$'
