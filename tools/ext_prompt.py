#!/usr/bin/env python3
"""Brief for a builder that EXTENDS an existing property check.  usage: ext_prompt.py <tag> <Cxx> <taskfile> [hours]"""
import json, sys
tag, pid, taskfile = sys.argv[1:4]
hours = sys.argv[4] if len(sys.argv) > 4 else "3"
props = {json.loads(l)["id"]: json.loads(l) for l in open("/verif/properties.jsonl") if l.strip()}
p = props[pid]
task = open(taskfile).read().strip()
lc = pid.lower()
print(f"""You are extending one part of an existing verification framework — machine-checked proof in Lean 4 plus a differential correspondence check — for the Python library QCElemental, checked out at /repo. /repo and /verif are READ-ONLY for you: never modify, commit or stash anything there.

SETUP: run `mkdir -p /tmp/w{tag} && cp -r /verif /tmp/w{tag}/verif` and work ONLY inside /tmp/w{tag}/verif (a complete private working copy, including a pre-built lake project in lean/.lake). First read, in that copy: harness/BUILDING.md (conventions and the harness API — follow it exactly), DESIGN.md §A and §1 and the subsection "### {pid}" of §2, the "{pid}" section of AS_BUILT.md (what is already proved / modelled / only differential), and the property's existing files: harness/{lc}.py, the Lean files it lists in LEAN_TARGETS and what they import (lean/QcelVerif/Model|Lemmas|Props|Driver). Run `./check {pid} --tier quick` once to see the flow (it must print OK and exit 0).

THE PROPERTY {pid} — {p['title']}
STATEMENT: {p['statement']}
QUANTIFIER: {p['quantifier']['text']}
CODE ANCHORS: files {p['anchors']['files']}

YOUR EXTENSION TASK
{task}

RULES
 * Never weaken, delete or rename an existing theorem, and never loosen an existing harness check or oracle; add to them. If you find an existing statement is wrong, tell me in your report instead of editing it away.
 * You may edit the files that belong to {pid} (its model/lemmas/props/driver files and harness/{lc}.py) and add new files. Do NOT edit shared files (harness/common.py, harness/run.py, harness/BUILDING.md, lean/QcelVerif/Lib/*, lean/lakefile.toml, check, MANIFEST.json, known_findings.json, DESIGN.md, AS_BUILT.md, tools/*) or files belonging to another property (import them read-only; if you need a variant, put it in a new file of your own). New Lean modules must be added to LEAN_TARGETS and every new property theorem to THEOREMS (fully qualified name + one-line statement in words) in harness/{lc}.py, and TRUSTED_BASE / ASSUMPTIONS / LEVEL_TEXT / RULE there must be updated to say exactly what is now proved, modelled, regenerated from the source, or still only differential — no more and no less.
 * Other builders are working in parallel in their own copies and import this property's existing Lean files read-only: do NOT change the meaning, name or signature of any existing definition or theorem in Model/*.lean, Lemmas/*.lean, Props/*.lean (add new definitions, new files, or refactoring-equivalent copies proved equal to the old ones); driver and harness files of {pid} are yours to extend.
 * Lean: no sorry/admit/axiom/native_decide/bv_decide/implemented_by/unsafe/`maxHeartbeats 0`; `#print axioms` of every listed theorem must stay within propext, Classical.choice, Quot.sound (the harness audits this). Import single Mathlib modules, never `import Mathlib`. Model files that a driver imports must stay Mathlib-free. Theorems must hold for ALL inputs (no size bound) unless the quantifier is a finite shipped table; state each at full strength or name it `…_partial` with a `-- FULL:` comment; put a non-vacuity `example` beside every implication; label concrete `decide` examples as tests. Keep every single tactic call fast (< ~20 s); split lemmas rather than raising heartbeats much.
 * Zero false alarms: the oracle must demand exactly what the property statement says inside its quantifier. A model/implementation disagreement on the unchanged tree means the MODEL is wrong (fix it) unless the property itself is violated — then do not loosen anything: report it to me with a minimal reproducer, give it its own Finding kind, and make the check tolerate exactly that narrowly-matched class through `known_predicate` + a local known_findings.json entry {{"id": "...", "property": "{pid}", "kind": "<kind>", "what": "<one line>", "status": "open"}}.
 * Budget of the finished check: quick ≤ ~3 min wall, thorough ≤ ~20 min, on 16 cores shared with ~10 other workers (keep your builds modest: build single modules with `lake build QcelVerif.<Module>` inside lean/).

MUST-PASS BEFORE YOU FINISH: `./check {pid} --tier quick` prints `OK …` and exits 0 with VERIF_SEED=0, 1 and 2; `./check {pid} --tier thorough` passes once; for every piece of new *checking* machinery (new driver ops, new translator, new oracle clause) at least two hand-made realistic mutants of the anchored code in a scratch copy (`rsync -a --exclude .git /repo/ /tmp/w{tag}/repo/`, edit, `QCEL_REPO=/tmp/w{tag}/repo ./check {pid} --tier quick` → must print `VIOLATION property={pid} replay=…`), scratch copies deleted afterwards. For pure-proof work: `lake build` of your modules from clean (`rm` their .olean/.ilean under lean/.lake first) passes and the audit shows the standard axioms only.

ENVIRONMENT: Lean 4.33 + Mathlib (first import of a Mathlib module takes ~1 min, later ones seconds; the String API of this Lean version differs from older ones — see the List-Char helpers in lean/QcelVerif/Lib/Proto.lean; drivers run via `lake env lean --run`, the harness does it). Mathlib source is under /opt/veriftools/mathlib4 (grep it for lemma names; never modify it). Python is /venv/bin/python (numpy 2.x, pydantic v2 with the v1 shim, pint, msgpack, jsonschema, hypothesis; NO scipy). No network. Never run `pkill -f <pattern>` (it kills your own shell); use `pgrep lean | xargs kill` if you must.

Aim to finish within roughly {hours} hours of wall-clock; if you are running out, stop adding scope and make what exists solid — a smaller extension that is finished, honest and green is worth far more than a larger one that is not. FINAL REPORT (your last message, plain text, at most ~60 lines): every file created or modified (paths relative to the copy); each new theorem's fully qualified name and plain-words statement, marking partial ones; what moved from 'trusted / differential only' to 'proved' or 'modelled' or 'regenerated from source'; wall times of quick/thorough; seeds run; mutants tried and whether caught (with the kind that fired); any genuine defects found in /repo with reproducers; anything you want changed in shared code. Leave /tmp/w{tag}/verif in place when done.""")
