#!/venv/bin/python
"""Translator: numeric constants, keyword defaults and small literal tables of the anchored code  →  Lean.

Re-reads, on every run, the Python sources under `QCEL_REPO` (default /repo) **by `ast`, never by importing**, and
writes `lean/QcelVerif/Gen/SrcConsts.lean` (git-ignored).  `lean/QcelVerif/Props/ConstTie<Cxx>.lean` proves that
each generated value equals the constant the hand-written Lean model of the property uses.

Rules followed here:
  * every extraction names the exact syntactic shape it expects; any other shape raises `SrcShapeError`
    (→ the group's definitions are NOT emitted, the dependent `ConstTie` module no longer builds, and the
    translator raises for the properties that need the group → broken obligation; never a guess);
  * ints → `Int`; bools → `Bool`; strings → `String`; lists of strings → `List String`;
  * a float literal `T` (its source text) →  `X : Rat` the exact decimal value of the text,
    `X_f64 : Rat` the exact value of the double CPython reads from it, `X_dec : Bool × Nat × Int` the decimal
    as (sign, coefficient, exponent) and `X_bits : Nat` the IEEE-754 bit pattern — `Props/ConstTieLib.lean`
    re-checks in the kernel that `X_bits` is the double nearest to `X_dec` and that its value is `X_f64`,
    so that CPython's `float()` is not trusted for these constants.

Groups (one per source function); which property needs which group is `NEEDS` in harness/consttie.py.
"""
from __future__ import annotations

import ast
import os
import re
import struct
import sys
from decimal import Decimal
from fractions import Fraction
from pathlib import Path

VERIF = Path(__file__).resolve().parent.parent
OUT = VERIF / "lean" / "QcelVerif" / "Gen" / "SrcConsts.lean"


class SrcShapeError(Exception):
    pass


def need(cond, msg):
    if not cond:
        raise SrcShapeError(msg)


# --------------------------------------------------------------------------------------------------
# typed literal values

FLOAT_RE = re.compile(r"^[0-9]+\.?[0-9]*(?:[eE][+-]?[0-9]+)?$|^\.[0-9]+(?:[eE][+-]?[0-9]+)?$")


class Src:
    """one parsed source file"""

    def __init__(self, repo: Path, rel: str):
        self.rel = rel
        self.path = repo / rel
        try:
            self.text = self.path.read_text()
        except OSError as e:
            raise SrcShapeError(f"{rel}: cannot read ({e})")
        try:
            self.tree = ast.parse(self.text)
        except SyntaxError as e:
            raise SrcShapeError(f"{rel}: does not parse ({e})")

    def seg(self, node) -> str:
        s = ast.get_source_segment(self.text, node)
        need(s is not None, f"{self.rel}:{getattr(node, 'lineno', '?')}: no source segment")
        return s

    def where(self, node) -> str:
        return f"{self.rel}:{getattr(node, 'lineno', '?')}"

    # ---- typed literals ------------------------------------------------------------------------
    def lit(self, node):
        """('bool', b) | ('int', n) | ('float', text, neg) | ('str', s) | ('none',) | ('strs', [..])"""
        if isinstance(node, ast.Constant):
            v = node.value
            if v is None:
                return ("none",)
            if isinstance(v, bool):
                return ("bool", v)
            if isinstance(v, int):
                return ("int", v)
            if isinstance(v, float):
                t = self.seg(node).replace("_", "")
                need(FLOAT_RE.match(t) is not None, f"{self.where(node)}: float literal text {t!r} not recognised")
                need(float(t) == v, f"{self.where(node)}: literal text {t!r} does not denote the parsed value {v!r}")
                return ("float", t, False)
            if isinstance(v, str):
                return ("str", v)
            raise SrcShapeError(f"{self.where(node)}: constant of type {type(v).__name__} not supported")
        if isinstance(node, ast.UnaryOp) and isinstance(node.op, ast.USub):
            inner = self.lit(node.operand)
            if inner[0] == "int":
                return ("int", -inner[1])
            if inner[0] == "float" and not inner[2]:
                return ("float", inner[1], True)
            raise SrcShapeError(f"{self.where(node)}: unary minus on {inner[0]}")
        if isinstance(node, (ast.List, ast.Tuple)):
            items = [self.lit(e) for e in node.elts]
            need(all(i[0] == "str" for i in items), f"{self.where(node)}: only lists of string literals are supported")
            return ("strs", [i[1] for i in items])
        raise SrcShapeError(f"{self.where(node)}: expected a literal, found `{ast.unparse(node)}`")

    def lit_of(self, node, kind):
        v = self.lit(node)
        need(v[0] == kind, f"{self.where(node)}: expected a {kind} literal, found `{ast.unparse(node)}`")
        return v

    # ---- navigation ----------------------------------------------------------------------------
    def func(self, name: str, within=None) -> ast.FunctionDef:
        """the unique function `name` directly inside `within` (module by default); `A.b` descends into class/def A"""
        node = within if within is not None else self.tree
        for part in name.split("."):
            hits = [n for n in node.body if isinstance(n, (ast.FunctionDef, ast.ClassDef)) and n.name == part]
            need(len(hits) == 1, f"{self.rel}: expected exactly one definition of `{part}` (of `{name}`), found {len(hits)}")
            node = hits[0]
        need(isinstance(node, ast.FunctionDef), f"{self.rel}: `{name}` is not a function")
        return node

    def defaults(self, fn: ast.FunctionDef) -> dict:
        a = fn.args
        out = {}
        pos = a.posonlyargs + a.args
        for arg, d in zip(pos[len(pos) - len(a.defaults):], a.defaults):
            out[arg.arg] = d
        for arg, d in zip(a.kwonlyargs, a.kw_defaults):
            if d is not None:
                out[arg.arg] = d
        return out

    def default(self, fn, arg):
        d = self.defaults(fn)
        need(arg in d, f"{self.rel}: `{fn.name}` has no keyword default for `{arg}`")
        return d[arg]


def is_name(n, ident):
    return isinstance(n, ast.Name) and n.id == ident


def is_attr_call(n, obj, attr):
    """`obj.attr(...)`"""
    return isinstance(n, ast.Call) and isinstance(n.func, ast.Attribute) and n.func.attr == attr and is_name(n.func.value, obj)


def cmp1(n):
    """a Compare with one operator → (left, op class, right) else None"""
    if isinstance(n, ast.Compare) and len(n.ops) == 1:
        return n.left, type(n.ops[0]), n.comparators[0]
    return None


def kw(call: ast.Call, name):
    hits = [k.value for k in call.keywords if k.arg == name]
    return hits[0] if len(hits) == 1 else None


# --------------------------------------------------------------------------------------------------
# extraction, one function per group.  Each returns a list of (lean_name, typed_value, comment)


def g_from_arrays(repo):
    s = Src(repo, "qcelemental/molparse/from_arrays.py")
    out = []
    for fname in ("from_arrays", "from_input_arrays"):
        fn = s.func(fname)
        for arg, kind in (("speclabel", "bool"), ("tooclose", "float"), ("zero_ghost_fragments", "bool"), ("nonphysical", "bool"),
                          ("mtol", "float"), ("units", "str")):
            out.append((f"{fname}.{arg}", s.lit_of(s.default(fn, arg), kind), f"default of `{fname}({arg}=…)`"))
        if fname == "from_arrays":
            out.append((f"{fname}.input_units_to_au", s.lit_of(s.default(fn, "input_units_to_au"), "none"), "default `None`"))
    # from_input_arrays forwards its five processing options unchanged to from_arrays(domain="qm")
    fia = s.func("from_input_arrays")
    calls = [c for c in ast.walk(fia) if isinstance(c, ast.Call) and is_name(c.func, "from_arrays") and kw(c, "geom") is not None]
    need(len(calls) == 1, f"{s.rel}: from_input_arrays: expected exactly one call of from_arrays with geom= (the qm domain), found {len(calls)}")
    for arg in ("speclabel", "tooclose", "zero_ghost_fragments", "nonphysical", "mtol", "units"):
        v = kw(calls[0], arg)
        need(v is not None and is_name(v, arg), f"{s.where(calls[0])}: from_input_arrays must forward `{arg}={arg}` to from_arrays")
    out.append(("from_input_arrays.forwards_options", ("bool", True), "speclabel/tooclose/zero_ghost_fragments/nonphysical/mtol/units are forwarded unchanged"))

    # validate_and_fill_geometry
    g = s.func("validate_and_fill_geometry")
    out.append(("geometry.tooclose", s.lit_of(s.default(g, "tooclose"), "float"), "default of `validate_and_fill_geometry(tooclose=…)`"))
    mets = [a for a in ast.walk(g) if isinstance(a, ast.Assign) and len(a.targets) == 1 and is_name(a.targets[0], "metric")]
    need(len(mets) == 1, f"{s.rel}: validate_and_fill_geometry: expected exactly one `metric = …`")
    v = mets[0].value
    need(isinstance(v, ast.BinOp) and isinstance(v.op, ast.Pow) and is_name(v.left, "tooclose"), f"{s.where(v)}: expected `metric = tooclose ** k`")
    out.append(("geometry.metric_power", s.lit_of(v.right, "int"), "`metric = tooclose ** k`"))
    cmps = [c for c in ast.walk(g) if cmp1(c) and any(is_name(x, "metric") for x in (cmp1(c)[0], cmp1(c)[2]))]
    need(len(cmps) >= 1, f"{s.rel}: validate_and_fill_geometry: no comparison against `metric`")
    for c in cmps:
        l, op, r = cmp1(c)
        need(is_name(l, "dists") and op is ast.Lt and is_name(r, "metric"), f"{s.where(c)}: expected `dists < metric`, found `{ast.unparse(c)}`")
    out.append(("geometry.refuses_strictly_below", ("bool", True), "every test is `dists < metric` (squared distance strictly below tooclose²)"))

    # validate_and_fill_nuclei defaults
    n = s.func("validate_and_fill_nuclei")
    for arg, kind in (("speclabel", "bool"), ("nonphysical", "bool"), ("mtol", "float")):
        out.append((f"nuclei.{arg}", s.lit_of(s.default(n, arg), kind), f"default of `validate_and_fill_nuclei({arg}=…)`"))

    # validate_and_fill_units
    u = s.func("validate_and_fill_units")
    out.append(("units.units", s.lit_of(s.default(u, "units"), "str"), "default of `validate_and_fill_units(units=…)`"))
    tests = []
    for i in ast.walk(u):
        if isinstance(i, ast.If) and cmp1(i.test):
            l, op, r = cmp1(i.test)
            if op is ast.In and is_attr_call(l, "units", "capitalize"):
                tests.append((i, r))
    need(len(tests) == 1, f"{s.rel}: validate_and_fill_units: expected exactly one `if units.capitalize() in [...]`, found {len(tests)}")
    iff, lst = tests[0]
    out.append(("units.accepted", s.lit_of(lst, "strs"), "`units.capitalize() in […]`; anything else raises ValidationError"))
    need(len(iff.orelse) == 1 and isinstance(iff.orelse[0], ast.Raise), f"{s.where(iff)}: the else branch of the unit test must raise")
    # window
    wins = []
    for c in ast.walk(u):
        t = cmp1(c)
        if t and isinstance(t[0], ast.Call) and is_name(t[0].func, "abs") and len(t[0].args) == 1:
            a = t[0].args[0]
            if isinstance(a, ast.BinOp) and isinstance(a.op, ast.Sub) and {getattr(a.left, "id", None), getattr(a.right, "id", None)} == {"input_units_to_au", "iutau"}:
                wins.append(t)
    need(len(wins) == 1, f"{s.rel}: validate_and_fill_units: expected exactly one `abs(input_units_to_au - iutau) < w`, found {len(wins)}")
    need(wins[0][1] is ast.Lt, f"{s.rel}: the input_units_to_au window test must be `<`")
    out.append(("units.iutau_window", s.lit_of(wins[0][2], "float"), "`abs(input_units_to_au - iutau) < w` accepts, else ValidationError"))
    # bohr factor
    bohr = [a for a in ast.walk(u) if isinstance(a, ast.Assign) and len(a.targets) == 1 and is_name(a.targets[0], "iutau") and isinstance(a.value, ast.Constant)]
    need(len(bohr) == 1, f"{s.rel}: validate_and_fill_units: expected exactly one `iutau = <literal>`")
    out.append(("units.bohr_factor", s.lit_of(bohr[0].value, "float"), "`iutau = 1.0` for Bohr"))
    # bond order range
    bos = []
    for b in ast.walk(u):
        if isinstance(b, ast.BoolOp) and isinstance(b.op, ast.Or) and len(b.values) == 2 and all(cmp1(x) and is_name(cmp1(x)[0], "bondorder") for x in b.values):
            bos.append(b)
    need(len(bos) == 1, f"{s.rel}: validate_and_fill_units: expected exactly one `bondorder < lo or bondorder > hi`, found {len(bos)}")
    (_, o1, r1), (_, o2, r2) = cmp1(bos[0].values[0]), cmp1(bos[0].values[1])
    need(o1 is ast.Lt and o2 is ast.Gt, f"{s.where(bos[0])}: expected `bondorder < lo or bondorder > hi`")
    out.append(("units.bondorder_min", s.lit_of(r1, "int"), "`bondorder < lo` raises"))
    out.append(("units.bondorder_max", s.lit_of(r2, "int"), "`bondorder > hi` raises"))
    # atom index lower bounds `at1 < 0`, `at2 < 0`
    for at in ("at1", "at2"):
        hits = [cmp1(c) for c in ast.walk(u) if cmp1(c) and is_name(cmp1(c)[0], at) and cmp1(c)[1] is ast.Lt]
        need(len(hits) == 1, f"{s.rel}: expected exactly one `{at} < k`")
        out.append((f"units.{at}_min", s.lit_of(hits[0][2], "int"), f"`{at} < k` raises"))
    return out


def g_from_string(repo):
    s = Src(repo, "qcelemental/molparse/from_string.py")
    fn = s.func("from_string")
    calls = [c for c in ast.walk(fn) if isinstance(c, ast.Call) and is_name(c.func, "from_input_arrays")]
    need(len(calls) == 1, f"{s.rel}: from_string: expected exactly one call of from_input_arrays, found {len(calls)}")
    c = calls[0]
    out = [("from_string.call_speclabel", s.lit_of(kw(c, "speclabel") or ast.Constant(value=None), "bool"), "`from_input_arrays(speclabel=…)` in from_string")]
    for arg in ("tooclose", "zero_ghost_fragments", "nonphysical", "mtol"):
        need(kw(c, arg) is None, f"{s.where(c)}: from_string now passes `{arg}=` explicitly to from_input_arrays")
    out.append(("from_string.call_uses_defaults", ("bool", True), "tooclose/zero_ghost_fragments/nonphysical/mtol are NOT passed: from_input_arrays' defaults apply"))
    return out


def g_from_schema(repo):
    s = Src(repo, "qcelemental/molparse/from_schema.py")
    fn = s.func("from_schema")
    calls = [c for c in ast.walk(fn) if isinstance(c, ast.Call) and is_name(c.func, "from_arrays")]
    need(len(calls) == 1, f"{s.rel}: from_schema: expected exactly one call of from_arrays, found {len(calls)}")
    c = calls[0]
    need(kw(c, "units") is not None and kw(c, "speclabel") is not None and kw(c, "input_units_to_au") is not None,
         f"{s.where(c)}: from_schema must pass units=, speclabel=, input_units_to_au= to from_arrays")
    out = [("from_schema.call_units", s.lit_of(kw(c, "units"), "str"), "`from_arrays(units=…)` in from_schema"),
           ("from_schema.call_speclabel", s.lit_of(kw(c, "speclabel"), "bool"), "`from_arrays(speclabel=…)` in from_schema"),
           ("from_schema.call_input_units_to_au", s.lit_of(kw(c, "input_units_to_au"), "none"), "`input_units_to_au=None`")]
    for arg in ("tooclose", "zero_ghost_fragments", "mtol", "missing_enabled_return"):
        need(kw(c, arg) is None, f"{s.where(c)}: from_schema now passes `{arg}=` explicitly to from_arrays")
    out.append(("from_schema.call_uses_defaults", ("bool", True), "tooclose/zero_ghost_fragments/mtol/missing_enabled_return are NOT passed: from_arrays' defaults apply"))
    v = kw(c, "nonphysical")
    need(v is not None and is_name(v, "nonphysical"), f"{s.where(c)}: from_schema must forward nonphysical=nonphysical")
    out.append(("from_schema.nonphysical", s.lit_of(s.default(fn, "nonphysical"), "bool"), "default of `from_schema(nonphysical=…)`"))
    return out


def g_nucleus(repo):
    s = Src(repo, "qcelemental/molparse/nucleus.py")
    fn = s.func("reconcile_nucleus")
    out = []
    for arg, kind in (("speclabel", "bool"), ("nonphysical", "bool"), ("mtol", "float")):
        out.append((f"reconcile_nucleus.{arg}", s.lit_of(s.default(fn, arg), kind), f"default of `reconcile_nucleus({arg}=…)`"))
    mm = [a for a in ast.walk(fn) if isinstance(a, ast.Assign) and len(a.targets) == 1 and is_name(a.targets[0], "mmtol")]
    need(len(mm) == 1, f"{s.rel}: expected exactly one `mmtol = …`")
    out.append(("reconcile_nucleus.mmtol", s.lit_of(mm[0].value, "float"), "`mmtol`: tolerance for mass outside the known masses of the element"))
    # physical mass window: `x >= mmin - mmtol and x <= mmax + mmtol`
    lams = [l for l in ast.walk(fn) if isinstance(l, ast.Lambda)]
    phys = [l for l in lams if isinstance(l.body, ast.BoolOp) and isinstance(l.body.op, ast.And) and "mmtol" in ast.unparse(l.body)]
    need(len(phys) == 1, f"{s.rel}: expected exactly one lambda using mmtol")
    need(ast.unparse(phys[0].body) == "x >= mmin - mmtol and x <= mmax + mmtol", f"{s.where(phys[0])}: physical mass window is `{ast.unparse(phys[0].body)}`")
    out.append(("reconcile_nucleus.mass_window_closed", ("bool", True), "`x >= mmin - mmtol and x <= mmax + mmtol` (both ends closed)"))
    # nonphysical mass: lambda x: x > 0.5
    npm = [l for l in lams if cmp1(l.body) and is_name(cmp1(l.body)[0], "x") and cmp1(l.body)[1] is ast.Gt and isinstance(cmp1(l.body)[2], ast.Constant)]
    need(len(npm) == 1, f"{s.rel}: expected exactly one `lambda x: x > <literal>` (nonphysical mass)")
    out.append(("reconcile_nucleus.nonphysical_mass_above", s.lit_of(cmp1(npm[0].body)[2], "float"), "nonphysical: `x > k`"))
    # A ranges: `x == -1 or x >= 1` and `x == -1 or (x >= amin and x <= amax)`
    ars = [l for l in lams if isinstance(l.body, ast.BoolOp) and isinstance(l.body.op, ast.Or) and len(l.body.values) == 2 and cmp1(l.body.values[0])
           and is_name(cmp1(l.body.values[0])[0], "x") and cmp1(l.body.values[0])[1] is ast.Eq]
    need(len(ars) == 2, f"{s.rel}: expected two `lambda x: x == S or …` mass-number ranges, found {len(ars)}")
    sent = {s.lit_of(cmp1(l.body.values[0])[2], "int")[1] for l in ars}
    nonph = [l for l in ars if cmp1(l.body.values[1]) and cmp1(l.body.values[1])[1] is ast.GtE and is_name(cmp1(l.body.values[1])[0], "x")]
    need(len(nonph) == 1, f"{s.rel}: expected exactly one `x == S or x >= k`")
    out.append(("reconcile_nucleus.nonphysical_A_min", s.lit_of(cmp1(nonph[0].body.values[1])[2], "int"), "nonphysical: `x == S or x >= k`"))
    phy = [l for l in ars if l is not nonph[0]][0]
    need(ast.unparse(phy.body.values[1]) == "x >= amin and x <= amax", f"{s.where(phy)}: physical A range is `{ast.unparse(phy.body)}`")
    # m_a = -1 (twice), inside offer_mass_value
    omv = s.func("offer_mass_value", within=fn)
    mas = [a for a in ast.walk(omv) if isinstance(a, ast.Assign) and len(a.targets) == 1 and is_name(a.targets[0], "m_a") and not isinstance(a.value, ast.Call)]
    need(len(mas) == 2, f"{s.rel}: offer_mass_value: expected two `m_a = <sentinel>`, found {len(mas)}")
    sent |= {s.lit_of(a.value, "int")[1] for a in mas}
    need(len(sent) == 1, f"{s.rel}: the unknown-A sentinel is not one value: {sorted(sent)}")
    out.append(("reconcile_nucleus.unknown_A", ("int", sent.pop()), "the unknown-A sentinel (`m_a = S`, `x == S or …`)"))
    # abs(to_mass(m_eliso) - m) > mtol   and   abs(x - a_mass) <= mtol
    c1 = [cmp1(c) for c in ast.walk(omv) if cmp1(c) and is_name(cmp1(c)[2], "mtol")]
    need(len(c1) == 1 and c1[0][1] is ast.Gt, f"{s.rel}: offer_mass_value: expected exactly one `abs(…) > mtol`")
    omn = s.func("offer_mass_number", within=fn)
    c2 = [cmp1(c) for c in ast.walk(omn) if cmp1(c) and is_name(cmp1(c)[2], "mtol")]
    need(len(c2) == 1 and c2[0][1] is ast.LtE, f"{s.rel}: offer_mass_number: expected exactly one `abs(…) <= mtol`")
    out.append(("reconcile_nucleus.mtol_closed", ("bool", True), "`abs(x - a_mass) <= mtol` accepts; `abs(to_mass - m) > mtol` drops A (the edge itself is inside)"))
    return out


def g_chgmult(repo):
    s = Src(repo, "qcelemental/molparse/chgmult.py")
    fn = s.func("validate_and_fill_chgmult")
    out = [("chgmult.zero_ghost_fragments", s.lit_of(s.default(fn, "zero_ghost_fragments"), "bool"), "default of `validate_and_fill_chgmult(zero_ghost_fragments=…)`")]
    # frag_mult_hi/lo = _high_spin_sum(_apply_default(<list>, K))
    for nm in ("frag_mult_hi", "frag_mult_lo"):
        ks = set()
        asg = [a for a in ast.walk(fn) if isinstance(a, ast.Assign) and len(a.targets) == 1 and is_name(a.targets[0], nm)]
        need(len(asg) == 2, f"{s.rel}: expected two assignments of `{nm}`, found {len(asg)}")
        for a in asg:
            v = a.value
            need(isinstance(v, ast.Call) and is_name(v.func, "_high_spin_sum") and len(v.args) == 1 and isinstance(v.args[0], ast.Call)
                 and is_name(v.args[0].func, "_apply_default") and len(v.args[0].args) == 2, f"{s.where(a)}: expected `{nm} = _high_spin_sum(_apply_default(…, K))`")
            ks.add(s.lit_of(v.args[0].args[1], "int")[1])
        need(len(ks) == 1, f"{s.rel}: `{nm}` uses different defaults {sorted(ks)}")
        out.append((f"chgmult.{nm}_default", ("int", ks.pop()), f"`{nm} = _high_spin_sum(_apply_default(…, K))` (S5, S6)"))
    # S7 / S4: appended literals
    def appended(listname):
        vals = []
        for e in ast.walk(fn):
            if isinstance(e, ast.Expr) and isinstance(e.value, ast.Call) and isinstance(e.value.func, ast.Attribute) and e.value.func.attr == "append" \
               and isinstance(e.value.func.value, ast.Subscript) and is_name(e.value.func.value.value, listname) and len(e.value.args) == 1 \
               and isinstance(e.value.args[0], ast.Constant):
                vals.append((e.lineno, e.value.args[0]))
        return [v for _, v in sorted(vals, key=lambda p: p[0])]
    fm = appended("cgmp_exact_fm")
    need(len(fm) == 2, f"{s.rel}: expected two literal appends to cgmp_exact_fm[ifr] (S7), found {len(fm)}")
    out.append(("chgmult.s7_first", s.lit_of(fm[0], "int"), "S7: first default fragment multiplicity appended"))
    out.append(("chgmult.s7_second", s.lit_of(fm[1], "int"), "S7: second default fragment multiplicity appended"))
    fc = appended("cgmp_exact_fc")
    need(len(fc) == 1, f"{s.rel}: expected one literal append to cgmp_exact_fc[ifr] (S4), found {len(fc)}")
    out.append(("chgmult.s4_charge", s.lit_of(fc[0], "float"), "S4: default fragment charge appended"))
    # max(missing_mult_lo, 1)
    mx = [c for c in ast.walk(fn) if isinstance(c, ast.Call) and is_name(c.func, "max") and len(c.args) == 2 and is_name(c.args[0], "missing_mult_lo")]
    need(len(mx) == 1, f"{s.rel}: expected exactly one `max(missing_mult_lo, k)`")
    out.append(("chgmult.s6_floor", s.lit_of(mx[0].args[1], "int"), "S6: `range(max(missing_mult_lo, k), …)`"))
    # else-branch `missing_mult_hi = 0`, `missing_mult_lo = 0`
    for nm in ("missing_mult_hi", "missing_mult_lo"):
        z = [a for a in ast.walk(fn) if isinstance(a, ast.Assign) and len(a.targets) == 1 and is_name(a.targets[0], nm) and isinstance(a.value, ast.Constant)]
        need(len(z) == 1, f"{s.rel}: expected exactly one `{nm} = <literal>`")
        out.append((f"chgmult.{nm}_else", s.lit_of(z[0].value, "int"), f"`{nm} = k` when nothing is missing"))
    # zero_ghost_fragments rewriting: (fr if real_fragments[ifr] else K)
    ifexps = [e for e in ast.walk(fn) if isinstance(e, ast.IfExp) and is_name(e.body, "fr") and isinstance(e.orelse, ast.Constant)]
    need(len(ifexps) == 2, f"{s.rel}: expected two `(fr if real_fragments[ifr] else K)`, found {len(ifexps)}")
    ifexps.sort(key=lambda e: e.lineno)
    out.append(("chgmult.ghost_charge", s.lit_of(ifexps[0].orelse, "float"), "zero_ghost_fragments: ghost fragment charge"))
    out.append(("chgmult.ghost_mult", s.lit_of(ifexps[1].orelse, "int"), "zero_ghost_fragments: ghost fragment multiplicity"))
    # R9: fc[ifr] == 0 and fm[ifr] == 1
    r9 = [l for l in ast.walk(fn) if isinstance(l, ast.Lambda) and isinstance(l.body, ast.BoolOp) and isinstance(l.body.op, ast.And) and len(l.body.values) == 2
          and all(cmp1(v) and cmp1(v)[1] is ast.Eq and isinstance(cmp1(v)[0], ast.Subscript) for v in l.body.values)
          and ast.unparse(cmp1(l.body.values[0])[0]) == "fc[ifr]" and ast.unparse(cmp1(l.body.values[1])[0]) == "fm[ifr]"]
    need(len(r9) == 1, f"{s.rel}: expected exactly one R9 lambda `fc[ifr] == a and fm[ifr] == b`, found {len(r9)}")
    out.append(("chgmult.r9_charge", s.lit_of(cmp1(r9[0].body.values[0])[2], "int"), "R9: ghost fragments have charge k"))
    out.append(("chgmult.r9_mult", s.lit_of(cmp1(r9[0].body.values[1])[2], "int"), "R9: ghost fragments have multiplicity k"))
    # _mult_ok: m >= 1
    mo = s.func("_mult_ok")
    cs = [cmp1(c) for c in ast.walk(mo) if cmp1(c) and is_name(cmp1(c)[0], "m")]
    need(len(cs) == 1 and cs[0][1] is ast.GtE, f"{s.rel}: _mult_ok: expected `m >= k`")
    out.append(("chgmult.mult_min", s.lit_of(cs[0][2], "int"), "R3 `_mult_ok`: `m >= k`"))
    return out


def g_align(repo):
    s = Src(repo, "qcelemental/molutil/align.py")
    fn = s.func("B787")
    out = []
    for arg, kind in (("uno_cutoff", "float"), ("mols_align", "bool"), ("run_to_completion", "bool"), ("algorithm", "str"), ("run_mirror", "bool"),
                      ("atoms_map", "bool"), ("run_resorting", "bool")):
        out.append((f"B787.{arg}", s.lit_of(s.default(fn, arg), kind), f"default of `B787({arg}=…)`"))
    # a_convergence chain
    asg = sorted([a for a in ast.walk(fn) if isinstance(a, ast.Assign) and len(a.targets) == 1 and is_name(a.targets[0], "a_convergence")], key=lambda a: a.lineno)
    need(len(asg) == 3, f"{s.rel}: B787: expected three assignments of a_convergence, found {len(asg)}")
    chain = [i for i in ast.walk(fn) if isinstance(i, ast.If) and asg[0] in i.body]
    need(len(chain) == 1, f"{s.rel}: B787: a_convergence chain not found")
    c = chain[0]
    need(ast.unparse(c.test) == "mols_align is True" and len(c.orelse) == 1 and isinstance(c.orelse[0], ast.If)
         and ast.unparse(c.orelse[0].test) == "mols_align is False" and asg[1] in c.orelse[0].body and asg[2] in c.orelse[0].orelse
         and is_name(asg[2].value, "mols_align"), f"{s.where(c)}: expected `if mols_align is True: a = X / elif mols_align is False: a = Y / else: a = mols_align`")
    out.append(("B787.a_convergence_true", s.lit_of(asg[0].value, "float"), "`mols_align is True` → a_convergence"))
    out.append(("B787.a_convergence_false", s.lit_of(asg[1].value, "float"), "`mols_align is False` → a_convergence"))
    # best_rmsd = 100.0
    b = [a for a in ast.walk(fn) if isinstance(a, ast.Assign) and len(a.targets) == 1 and is_name(a.targets[0], "best_rmsd") and isinstance(a.value, ast.Constant)]
    need(len(b) == 1, f"{s.rel}: B787: expected exactly one `best_rmsd = <literal>`")
    out.append(("B787.best_rmsd_init", s.lit_of(b[0].value, "float"), "`best_rmsd = …` [Å] before the loop"))
    # np.around(temp_rmsd, decimals=8)
    ar = [c2 for c2 in ast.walk(fn) if is_attr_call(c2, "np", "around") and len(c2.args) >= 1 and is_name(c2.args[0], "temp_rmsd")]
    need(len(ar) == 2, f"{s.rel}: B787: expected two `np.around(temp_rmsd, decimals=k)`, found {len(ar)}")
    ds = {s.lit_of(kw(a, "decimals") or ast.Constant(value=None), "int")[1] for a in ar}
    need(len(ds) == 1, f"{s.rel}: B787: the two roundings use different decimals")
    out.append(("B787.rmsd_decimals", ("int", ds.pop()), "`np.around(temp_rmsd, decimals=k)`"))
    # break tests: best_rmsd < a_convergence
    br = [cmp1(c2) for c2 in ast.walk(fn) if cmp1(c2) and is_name(cmp1(c2)[2], "a_convergence")]
    need(len(br) == 2 and all(x[1] is ast.Lt and is_name(x[0], "best_rmsd") for x in br), f"{s.rel}: B787: expected two `best_rmsd < a_convergence`")
    imp = [cmp1(c2) for c2 in ast.walk(fn) if cmp1(c2) and is_name(cmp1(c2)[0], "temp_rmsd") and is_name(cmp1(c2)[2], "best_rmsd")]
    need(len(imp) == 2 and all(x[1] is ast.Lt for x in imp), f"{s.rel}: B787: expected two `temp_rmsd < best_rmsd`")
    out.append(("B787.tests_strict", ("bool", True), "`temp_rmsd < best_rmsd` and `best_rmsd < a_convergence` are strict"))
    # mirror pre-test
    ex = [a for a in ast.walk(fn) if isinstance(a, ast.Assign) and len(a.targets) == 1 and is_name(a.targets[0], "exact")]
    need(len(ex) == 1, f"{s.rel}: B787: expected exactly one `exact = …`")
    out.append(("B787.mirror_exact", s.lit_of(ex[0].value, "float"), "mirror pre-test: `exact`"))
    rec = [c2 for c2 in ast.walk(fn) if isinstance(c2, ast.Call) and is_name(c2.func, "B787")]
    need(len(rec) == 1 and kw(rec[0], "uno_cutoff") is not None, f"{s.rel}: B787: expected one recursive call with uno_cutoff=")
    out.append(("B787.mirror_uno_cutoff", s.lit_of(kw(rec[0], "uno_cutoff"), "float"), "mirror pre-test: hard-coded `uno_cutoff`"))
    # _plausible_atom_orderings
    pa = s.func("_plausible_atom_orderings")
    out.append(("plausible.uno_cutoff", s.lit_of(s.default(pa, "uno_cutoff"), "float"), "default of `_plausible_atom_orderings(uno_cutoff=…)`"))
    out.append(("plausible.algorithm", s.lit_of(s.default(pa, "algorithm"), "str"), "default of `_plausible_atom_orderings(algorithm=…)`"))
    ac = [c2 for c2 in ast.walk(pa) if is_attr_call(c2, "np", "allclose")]
    need(len(ac) == 1 and kw(ac[0], "atol") is not None and kw(ac[0], "rtol") is None, f"{s.rel}: filter_permutative: expected one `np.allclose(…, atol=k)` without rtol")
    out.append(("plausible.permutative_atol", s.lit_of(kw(ac[0], "atol"), "float"), "`np.allclose(bnbn, cncn, atol=k)` (numpy's default rtol)"))
    ed = [cmp1(c2) for c2 in ast.walk(pa) if cmp1(c2) and is_name(cmp1(c2)[2], "uno_cutoff")]
    need(len(ed) == 1 and ed[0][1] is ast.Lt and is_name(ed[0][0], "reducedcost"), f"{s.rel}: filter_hungarian_uno: expected one `reducedcost < uno_cutoff`")
    out.append(("plausible.edges_strict", ("bool", True), "`np.argwhere(reducedcost < uno_cutoff)`"))
    # cost matrix of filter_hungarian_uno: sumCC/sumRR = K * np.sum(submat, axis=0); cost[i, j] = (sumCC[i] - sumRR[j]) ** 2
    scales = set()
    for nm, sub in (("sumCC", "submatCC"), ("sumRR", "submatRR")):
        a = [x for x in ast.walk(pa) if isinstance(x, ast.Assign) and len(x.targets) == 1 and is_name(x.targets[0], nm)]
        need(len(a) == 1 and isinstance(a[0].value, ast.BinOp) and isinstance(a[0].value.op, ast.Mult) and ast.unparse(a[0].value.right) == f"np.sum({sub}, axis=0)",
             f"{s.rel}: filter_hungarian_uno: expected `{nm} = K * np.sum({sub}, axis=0)`")
        scales.add(s.lit_of(a[0].value.left, "float")[1])
    need(len(scales) == 1, f"{s.rel}: filter_hungarian_uno: sumCC and sumRR are scaled differently")
    out.append(("plausible.cost_scale", ("float", scales.pop(), False), "`sumCC = K * np.sum(submatCC, axis=0)` (same K for sumRR)"))
    ca = [x for x in ast.walk(pa) if isinstance(x, ast.Assign) and len(x.targets) == 1 and ast.unparse(x.targets[0]) == "cost[i, j]"]
    need(len(ca) == 1 and isinstance(ca[0].value, ast.BinOp) and isinstance(ca[0].value.op, ast.Pow) and ast.unparse(ca[0].value.left) == "sumCC[i] - sumRR[j]",
         f"{s.rel}: filter_hungarian_uno: expected `cost[i, j] = (sumCC[i] - sumRR[j]) ** k`")
    out.append(("plausible.cost_power", s.lit_of(ca[0].value.right, "int"), "`cost[i, j] = (sumCC[i] - sumRR[j]) ** k`"))
    # kabsch_align short circuit
    ka = s.func("kabsch_align")
    ifs = [i for i in ka.body if isinstance(i, ast.If) and any(isinstance(x, ast.Return) for x in i.body)]
    need(len(ifs) == 1, f"{s.rel}: kabsch_align: expected exactly one early-return `if`")
    need(ast.unparse(ifs[0].test) == "np.array_equal(R, C)", f"{s.where(ifs[0])}: kabsch_align short-circuit test is `{ast.unparse(ifs[0].test)}`, expected `np.array_equal(R, C)` (exact equality, no tolerance)")
    rets = [x for x in ifs[0].body if isinstance(x, ast.Return)]
    need(len(rets) == 1 and ast.unparse(rets[0].value) == "(0.0, np.identity(3), np.zeros(3))", f"{s.where(ifs[0])}: short-circuit returns `{ast.unparse(rets[0].value)}`")
    out.append(("kabsch.short_circuit_exact", ("bool", True), "`if np.array_equal(R, C): return 0.0, identity, zeros` — exact equality only, no tolerance"))
    return out


def g_molecule(repo):
    s = Src(repo, "qcelemental/models/molecule.py")
    out = []
    for nm in ("GEOMETRY_NOISE", "MASS_NOISE", "CHARGE_NOISE"):
        a = [x for x in s.tree.body if isinstance(x, ast.Assign) and len(x.targets) == 1 and is_name(x.targets[0], nm)]
        need(len(a) == 1, f"{s.rel}: expected exactly one module-level `{nm} = …`")
        out.append((f"molecule.{nm}", s.lit_of(a[0].value, "int"), f"module constant `{nm}`"))
    om = s.func("Molecule._orient_molecule_internal")
    gn = [a for a in ast.walk(om) if isinstance(a, ast.Assign) and len(a.targets) == 1 and is_name(a.targets[0], "geom_noise")]
    need(len(gn) == 1, f"{s.rel}: _orient_molecule_internal: expected one `geom_noise = …`")
    v = gn[0].value
    need(isinstance(v, ast.BinOp) and isinstance(v.op, ast.Pow) and isinstance(v.right, ast.UnaryOp) and isinstance(v.right.op, ast.USub)
         and is_name(v.right.operand, "GEOMETRY_NOISE"), f"{s.where(v)}: expected `geom_noise = B ** (-GEOMETRY_NOISE)`, found `{ast.unparse(v)}`")
    out.append(("orient.noise_base", s.lit_of(v.left, "int"), "`geom_noise = B ** (-GEOMETRY_NOISE)`"))
    cs = [cmp1(c) for c in ast.walk(om) if cmp1(c) and is_name(cmp1(c)[2], "geom_noise")]
    need(len(cs) == 1 and cs[0][1] is ast.Lt and ast.unparse(cs[0][0]) == "abs(val)", f"{s.rel}: _orient_molecule_internal: expected one `abs(val) < geom_noise`")
    neg = [cmp1(c) for c in ast.walk(om) if cmp1(c) and is_name(cmp1(c)[0], "val")]
    need(len(neg) == 1 and neg[0][1] is ast.Lt and s.lit_of(neg[0][2], "int")[1] == 0, f"{s.rel}: _orient_molecule_internal: expected one `val < 0`")
    out.append(("orient.tests_strict", ("bool", True), "`abs(val) < geom_noise` skips, `val < 0` flips"))
    # float_prep zero band
    fp = s.func("float_prep")
    subs = [a for a in ast.walk(fp) if isinstance(a, ast.Assign) and len(a.targets) == 1 and isinstance(a.targets[0], ast.Subscript) and is_name(a.targets[0].value, "array")]
    need(len(subs) == 1, f"{s.rel}: float_prep: expected one `array[…] = 0`")
    t = cmp1(subs[0].targets[0].slice)
    need(t is not None and t[1] is ast.Lt and ast.unparse(t[0]) == "np.abs(array)", f"{s.where(subs[0])}: expected `array[np.abs(array) < …] = 0`")
    r = t[2]
    ok = (isinstance(r, ast.BinOp) and isinstance(r.op, ast.Pow) and isinstance(r.right, ast.UnaryOp) and isinstance(r.right.op, ast.USub)
          and isinstance(r.right.operand, ast.BinOp) and isinstance(r.right.operand.op, ast.Add) and is_name(r.right.operand.left, "around"))
    need(ok, f"{s.where(subs[0])}: expected `B ** (-(around + O))`, found `{ast.unparse(r)}`")
    out.append(("float_prep.zero_band_base", s.lit_of(r.left, "int"), "`array[np.abs(array) < B ** (-(around + O))] = 0`"))
    out.append(("float_prep.zero_band_offset", s.lit_of(r.right.operand.right, "int"), "… `O`"))
    need(s.lit_of(subs[0].value, "int")[1] == 0, f"{s.where(subs[0])}: the zero band must be set to 0")
    return out


def g_molecule_align(repo):
    s = Src(repo, "qcelemental/models/molecule.py")
    fn = s.func("Molecule.align")
    out = []
    for arg, kind in (("uno_cutoff", "float"), ("mols_align", "bool"), ("run_to_completion", "bool"), ("run_mirror", "bool"), ("atoms_map", "bool"),
                      ("run_resorting", "bool"), ("generic_ghosts", "bool")):
        out.append((f"Molecule_align.{arg}", s.lit_of(s.default(fn, arg), kind), f"default of `Molecule.align({arg}=…)`"))
    calls = [c for c in ast.walk(fn) if isinstance(c, ast.Call) and ast.unparse(c.func) in ("B787", "molutil.B787")]
    need(len(calls) == 1, f"{s.rel}: Molecule.align: expected exactly one call of B787, found {len(calls)}")
    for arg in ("uno_cutoff", "mols_align", "run_to_completion", "run_mirror", "atoms_map", "run_resorting"):
        v = kw(calls[0], arg)
        need(v is not None and is_name(v, arg), f"{s.where(calls[0])}: Molecule.align must forward `{arg}={arg}` to B787")
    need(kw(calls[0], "algorithm") is None, f"{s.where(calls[0])}: Molecule.align now passes algorithm= to B787")
    out.append(("Molecule_align.forwards_options", ("bool", True), "uno_cutoff/mols_align/run_to_completion/run_mirror/atoms_map/run_resorting forwarded unchanged to B787; algorithm left at B787's default"))
    return out


def g_connectivity(repo):
    s = Src(repo, "qcelemental/molutil/connectivity.py")
    fn = s.func("guess_connectivity")
    out = [("guess_connectivity.threshold", s.lit_of(s.default(fn, "threshold"), "float"), "default of `guess_connectivity(threshold=…)`"),
           ("guess_connectivity.default_connectivity", s.lit_of(s.default(fn, "default_connectivity"), "none"), "default `None`")]
    gets = [c for c in ast.walk(fn) if isinstance(c, ast.Call) and isinstance(c.func, ast.Attribute) and c.func.attr == "get" and is_name(c.func.value, "covalentradii")]
    need(len(gets) == 1 and kw(gets[0], "missing") is not None and kw(gets[0], "units") is None and kw(gets[0], "return_tuple") is None,
         f"{s.rel}: guess_connectivity: expected one `covalentradii.get(s, missing=k)` (units/return_tuple left at their defaults)")
    out.append(("guess_connectivity.missing_radius", s.lit_of(kw(gets[0], "missing"), "float"), "`covalentradii.get(s, missing=k)`"))
    hs = [h for h in ast.walk(fn) if isinstance(h, ast.ExceptHandler)]
    need(len(hs) == 1 and is_name(hs[0].type, "NotAnElementError") and len(hs[0].body) == 1, f"{s.rel}: guess_connectivity: expected one `except NotAnElementError:` with one statement")
    e = hs[0].body[0]
    need(isinstance(e, ast.Expr) and is_attr_call(e.value, "radii", "append") and len(e.value.args) == 1, f"{s.where(e)}: expected `radii.append(k)` in the handler")
    out.append(("guess_connectivity.unknown_symbol_radius", s.lit_of(e.value.args[0], "float"), "`except NotAnElementError: radii.append(k)`"))
    cs = [cmp1(c) for c in ast.walk(fn) if cmp1(c) and is_name(cmp1(c)[2], "cutoff")]
    need(len(cs) == 1 and cs[0][1] is ast.Lt and is_name(cs[0][0], "dists"), f"{s.rel}: guess_connectivity: expected one `dists < cutoff`")
    cut = [a for a in ast.walk(fn) if isinstance(a, ast.Assign) and len(a.targets) == 1 and is_name(a.targets[0], "cutoff")]
    need(len(cut) == 1 and ast.unparse(cut[0].value) == "(radii[x] + radii[x + 1:]) * threshold", f"{s.rel}: guess_connectivity: `cutoff` is not `(radii[x] + radii[x + 1:]) * threshold`")
    dc = [i for i in fn.body if isinstance(i, ast.If) and is_name(i.test, "default_connectivity")]
    need(len(dc) == 1, f"{s.rel}: guess_connectivity: expected `if default_connectivity:` (truthiness)")
    out.append(("guess_connectivity.criterion_strict", ("bool", True), "`dists < (r_i + r_j) * threshold`; `default_connectivity` applied when truthy"))
    return out


def g_misc(repo):
    s = Src(repo, "qcelemental/util/misc.py")
    ca = s.func("compute_angle")
    cl = [c for c in ast.walk(ca) if is_attr_call(c, "np", "clip")]
    need(len(cl) == 1 and len(cl[0].args) == 3 and not cl[0].keywords, f"{s.rel}: compute_angle: expected one `np.clip(x, lo, hi)`")
    out = [("compute_angle.clip_lo", s.lit_of(cl[0].args[1], "int"), "`np.clip(cos, lo, hi)`"),
           ("compute_angle.clip_hi", s.lit_of(cl[0].args[2], "int"), "`np.clip(cos, lo, hi)`"),
           ("compute_angle.degrees", s.lit_of(s.default(ca, "degrees"), "bool"), "default of `compute_angle(degrees=…)`")]
    cd = s.func("compute_dihedral")
    out.append(("compute_dihedral.degrees", s.lit_of(s.default(cd, "degrees"), "bool"), "default of `compute_dihedral(degrees=…)`"))
    v1 = [a for a in ast.walk(cd) if isinstance(a, ast.Assign) and len(a.targets) == 1 and is_name(a.targets[0], "v1")]
    need(len(v1) == 1 and isinstance(v1[0].value, ast.BinOp) and isinstance(v1[0].value.op, ast.Mult) and ast.unparse(v1[0].value.right) == "points2 - points1",
         f"{s.rel}: compute_dihedral: expected `v1 = k * (points2 - points1)`")
    out.append(("compute_dihedral.v1_factor", s.lit_of(v1[0].value.left, "float"), "`v1 = k * (points2 - points1)`"))
    mc = s.func("measure_coordinates")
    out.append(("measure_coordinates.degrees", s.lit_of(s.default(mc, "degrees"), "bool"), "default of `measure_coordinates(degrees=…)`"))
    return out


def g_testing(repo):
    s = Src(repo, "qcelemental/testing.py")
    out = []
    cv = s.func("compare_values")
    for arg, kind in (("atol", "float"), ("rtol", "float"), ("equal_nan", "bool"), ("equal_phase", "bool"), ("passnone", "bool")):
        out.append((f"compare_values.{arg}", s.lit_of(s.default(cv, arg), kind), f"default of `compare_values({arg}=…)`"))
    cr = s.func("compare_recursive")
    for arg, kind in (("atol", "float"), ("rtol", "float"), ("forgive", "none"), ("equal_phase", "bool")):
        out.append((f"compare_recursive.{arg}", s.lit_of(s.default(cr, arg), kind), f"default of `compare_recursive({arg}=…)`"))
    ifs = [i for i in cr.body if isinstance(i, ast.If) and cmp1(i.test) and is_name(cmp1(i.test)[0], "atol")]
    need(len(ifs) == 1 and cmp1(ifs[0].test)[1] is ast.GtE and len(ifs[0].body) == 1 and isinstance(ifs[0].body[0], ast.Raise)
         and isinstance(ifs[0].body[0].exc, ast.Call) and is_name(ifs[0].body[0].exc.func, "ValueError"), f"{s.rel}: compare_recursive: expected `if atol >= k: raise ValueError(…)`")
    out.append(("compare_recursive.atol_refused_from", s.lit_of(cmp1(ifs[0].test)[2], "int"), "`if atol >= k: raise ValueError` (the former decimal-places reading 10**-atol is refused)"))
    # inner recursion: no sign retry in the first pass
    cm = s.func("compare_molrecs")
    for arg, kind in (("atol", "float"), ("rtol", "float"), ("forgive", "none"), ("relative_geoms", "str")):
        out.append((f"compare_molrecs.{arg}", s.lit_of(s.default(cm, arg), kind), f"default of `compare_molrecs({arg}=…)`"))
    md = s.func("massage_dicts", within=cm)
    keys = []
    for st in md.body:
        if isinstance(st, ast.If):
            t = cmp1(st.test)
            need(t is not None and t[1] is ast.In and is_name(t[2], "dicary") and not st.orelse, f"{s.where(st)}: massage_dicts: expected `if \"key\" in dicary:` without else")
            keys.append(s.lit_of(t[0], "str")[1])
        else:
            need(isinstance(st, (ast.Return, ast.Expr)), f"{s.where(st)}: massage_dicts: unexpected statement `{ast.unparse(st)[:60]}`")
    out.append(("compare_molrecs.massaged_keys", ("strs", keys), "`if \"key\" in dicary:` blocks of massage_dicts, in order"))
    pops = [c for c in ast.walk(md) if isinstance(c, ast.Call) and isinstance(c.func, ast.Attribute) and c.func.attr == "pop"]
    need(len(pops) == 1 and ast.unparse(pops[0].func.value) == "dicary['provenance']" and len(pops[0].args) == 1, f"{s.rel}: massage_dicts: expected one `dicary[\"provenance\"].pop(key)`")
    out.append(("compare_molrecs.provenance_popped", s.lit_of(pops[0].args[0], "str"), "`dicary[\"provenance\"].pop(key)` (no default: KeyError when absent)"))
    # the final call forwards atol/rtol/forgive and no equal_phase
    rc = [c for c in ast.walk(cm) if isinstance(c, ast.Call) and is_name(c.func, "compare_recursive")]
    need(len(rc) == 1 and all(kw(rc[0], a) is not None and is_name(kw(rc[0], a), a) for a in ("atol", "rtol", "forgive")) and kw(rc[0], "equal_phase") is None,
         f"{s.rel}: compare_molrecs: expected one `compare_recursive(…, atol=atol, rtol=rtol, forgive=forgive)` without equal_phase")
    out.append(("compare_molrecs.forwards", ("bool", True), "atol/rtol/forgive forwarded to compare_recursive, equal_phase left at its default"))
    # ProtoModel.compare forwards **kwargs
    b = Src(repo, "qcelemental/models/basemodels.py")
    pc = b.func("ProtoModel.compare")
    rcs = [c for c in ast.walk(pc) if isinstance(c, ast.Call) and is_name(c.func, "compare_recursive")]
    need(len(rcs) == 1 and ast.unparse(rcs[0]) == "compare_recursive(self, other, **kwargs)", f"{b.rel}: ProtoModel.compare: expected `compare_recursive(self, other, **kwargs)`, found {[ast.unparse(c) for c in rcs]}")
    out.append(("proto_compare.forwards_kwargs", ("bool", True), "`ProtoModel.compare(other, **kwargs)` = `compare_recursive(self, other, **kwargs)`: compare_recursive's defaults apply"))
    return out


def g_to_string(repo):
    s = Src(repo, "qcelemental/molparse/to_string.py")
    fn = s.func("to_string")
    out = [("to_string.width", s.lit_of(s.default(fn, "width"), "int"), "default of `to_string(width=…)`"),
           ("to_string.prec", s.lit_of(s.default(fn, "prec"), "int"), "default of `to_string(prec=…)`")]
    for arg in ("units", "atom_format", "ghost_format"):
        out.append((f"to_string.{arg}", s.lit_of(s.default(fn, arg), "none"), "default `None`"))
    du = [a for a in ast.walk(fn) if isinstance(a, ast.Assign) and len(a.targets) == 1 and is_name(a.targets[0], "default_units")]
    need(len(du) == 1 and isinstance(du[0].value, ast.Dict), f"{s.rel}: to_string: expected one `default_units = {{…}}`")
    ks = [s.lit_of(k, "str")[1] for k in du[0].value.keys]
    vs = [s.lit_of(v, "str")[1] for v in du[0].value.values]
    need(len(set(ks)) == len(ks), f"{s.rel}: default_units has a repeated key")
    out.append(("to_string.default_units", ("pairs", list(zip(ks, vs))), "`default_units` in source order"))
    # the dtype branches
    top = [i for i in fn.body if isinstance(i, ast.If) and cmp1(i.test) and is_name(cmp1(i.test)[0], "dtype") and cmp1(i.test)[1] in (ast.In, ast.Eq)]
    need(len(top) == 1, f"{s.rel}: to_string: expected one `if dtype in […] / elif dtype == …` chain, found {len(top)}")
    rows = []
    node = top[0]
    while True:
        l, op, r = cmp1(node.test)
        need(is_name(l, "dtype"), f"{s.where(node)}: branch test is not on dtype")
        names = s.lit_of(r, "strs")[1] if op is ast.In else [s.lit_of(r, "str")[1]]
        af = gf = None
        for st in node.body:
            if isinstance(st, ast.Assign) and len(st.targets) == 1 and isinstance(st.targets[0], ast.Name) and st.targets[0].id in ("atom_format", "ghost_format"):
                which = st.targets[0].id
                v = st.value
                if isinstance(v, ast.Constant):
                    val = ("fixed", s.lit_of(v, "str")[1])
                elif isinstance(v, ast.IfExp) and ast.unparse(v.test) == f"{which} is None" and is_name(v.orelse, which):
                    val = ("dflt", s.lit_of(v.body, "str")[1])          # caller's override honoured
                elif isinstance(v, ast.BoolOp) and isinstance(v.op, ast.Or) and len(v.values) == 2 and is_name(v.values[0], which):
                    val = ("or", s.lit_of(v.values[1], "str")[1])        # `ghost_format or "Gh"`
                else:
                    raise SrcShapeError(f"{s.where(st)}: unrecognised `{which} = {ast.unparse(v)}`")
                if which == "atom_format":
                    need(af is None, f"{s.where(st)}: atom_format assigned twice in one branch")
                    af = val
                else:
                    need(gf is None, f"{s.where(st)}: ghost_format assigned twice in one branch")
                    gf = val
        fcalls = [c for c in ast.walk(node) if isinstance(c, ast.Call) and is_name(c.func, "_atoms_formatter") and c in [x for b in node.body for x in ast.walk(b)]]
        xyze = False
        if fcalls:
            need(len(fcalls) == 1, f"{s.where(node)}: more than one _atoms_formatter call in a branch")
            c = fcalls[0]
            need([ast.unparse(a) for a in c.args] == ["molrec", "geom", "atom_format", "ghost_format", "width", "prec", "2"], f"{s.where(c)}: _atoms_formatter arguments are `{ast.unparse(c)}`")
            x = kw(c, "xyze")
            need(all(k.arg == "xyze" for k in c.keywords), f"{s.where(c)}: unexpected keyword in _atoms_formatter call")
            xyze = s.lit_of(x, "bool")[1] if x is not None else False
        for nm in names:
            rows.append((nm, af, gf, xyze, bool(fcalls)))
        if len(node.orelse) == 1 and isinstance(node.orelse[0], ast.If):
            node = node.orelse[0]
        else:
            break
    need(sorted(r[0] for r in rows) == sorted(ks), f"{s.rel}: the dtype branches {sorted(r[0] for r in rows)} are not the keys of default_units {sorted(ks)}")
    fm = []
    for nm, af, gf, xyze, uses in rows:
        need(gf is not None, f"{s.rel}: branch `{nm}` sets no ghost_format")
        afk, afv = af if af is not None else ("none", "")
        fm.append((nm, afk, afv, gf[0], gf[1], xyze, uses))
    out.append(("to_string.formats", ("formats", fm), "per dtype branch: (dtype, atom_format kind, text, ghost_format kind, text, xyze, uses _atoms_formatter); kind fixed = literal, dflt = literal unless the caller gave one, or = caller's if truthy else literal"))
    # _atoms_formatter
    af = s.func("_atoms_formatter")
    out.append(("atoms_formatter.xyze", s.lit_of(s.default(af, "xyze"), "bool"), "default of `_atoms_formatter(xyze=…)`"))
    gs = [cmp1(c) for c in ast.walk(af) if cmp1(c) and is_name(cmp1(c)[0], "ghost_format") and cmp1(c)[1] is ast.In]
    need(len(gs) == 1 and ast.unparse(gs[0][2]) == "['', None]", f"{s.rel}: _atoms_formatter: expected `ghost_format in ['', None]`")
    out.append(("atoms_formatter.ghost_suppressed_by_empty", ("bool", True), "`if ghost_format in [\"\", None]: continue`"))
    return out


def g_formula(repo):
    s = Src(repo, "qcelemental/molutil/molecular_formula.py")
    out = []
    for fname in ("order_molecular_formula", "molecular_formula_from_symbols"):
        out.append((f"{fname}.order", s.lit_of(s.default(s.func(fname), "order"), "str"), f"default of `{fname}(order=…)`"))
    fn = s.func("molecular_formula_from_symbols")
    so = [a for a in ast.walk(fn) if isinstance(a, ast.Assign) and len(a.targets) == 1 and is_name(a.targets[0], "supported_orders")]
    need(len(so) == 1, f"{s.rel}: expected one `supported_orders = […]`")
    out.append(("molecular_formula_from_symbols.supported_orders", s.lit_of(so[0].value, "strs"), "`supported_orders`"))
    cs = [cmp1(c) for c in ast.walk(fn) if cmp1(c) and is_name(cmp1(c)[0], "c")]
    need(len(cs) == 1 and cs[0][1] is ast.Gt, f"{s.rel}: expected one `c > k`")
    out.append(("molecular_formula_from_symbols.count_shown_above", s.lit_of(cs[0][2], "int"), "`if c > k: ret.append(str(c))`"))
    hill = [i for i in fn.body if isinstance(i, ast.If) and "hill" in ast.unparse(i.test)]
    need(len(hill) == 1 and ast.unparse(hill[0].test) == "order == 'hill' and 'C' in element_order", f"{s.rel}: hill test is `{[ast.unparse(i.test) for i in hill]}`")
    out.append(("molecular_formula_from_symbols.hill_first", ("strs", ["C", "H"]), "hill: C first, then H — only when C is present (`order == \"hill\" and \"C\" in element_order`)"))
    oo = s.func("order_molecular_formula")
    n1 = [a for a in ast.walk(oo) if isinstance(a, ast.Assign) and len(a.targets) == 1 and is_name(a.targets[0], "n") and isinstance(a.value, ast.Constant)]
    need(len(n1) == 1, f"{s.rel}: order_molecular_formula: expected one `n = <literal>`")
    out.append(("order_molecular_formula.implicit_count", s.lit_of(n1[0].value, "int"), "a symbol without digits counts `n = k`"))
    return out


def g_radii(repo):
    out = []
    for rel, cls, tag in (("qcelemental/covalent_radii.py", "CovalentRadii", "covalent"), ("qcelemental/vanderwaals_radii.py", "VanderWaalsRadii", "vdw")):
        s = Src(repo, rel)
        fn = s.func(f"{cls}.get")
        out.append((f"{tag}.get.return_tuple", s.lit_of(s.default(fn, "return_tuple"), "bool"), f"default of `{cls}.get(return_tuple=…)`"))
        out.append((f"{tag}.get.units", s.lit_of(s.default(fn, "units"), "str"), f"default of `{cls}.get(units=…)`"))
        out.append((f"{tag}.get.missing", s.lit_of(s.default(fn, "missing"), "none"), "default `None`"))
        ts = [i for i in ast.walk(fn) if isinstance(i, ast.If) and ast.unparse(i.test) == "missing is not None and return_tuple is False"]
        need(len(ts) == 1 and len(ts[0].body) == 1 and ast.unparse(ts[0].body[0]) == "return missing", f"{s.rel}: {cls}.get: expected `if missing is not None and return_tuple is False: return missing`")
        out.append((f"{tag}.get.missing_returned_as_given", ("bool", True), "`missing` is returned unchanged (no unit conversion) when the element has no radius"))
    return out


GROUPS = {
    "from_arrays": g_from_arrays,
    "from_string": g_from_string,
    "from_schema": g_from_schema,
    "nucleus": g_nucleus,
    "chgmult": g_chgmult,
    "align": g_align,
    "molecule": g_molecule,
    "molecule_align": g_molecule_align,
    "connectivity": g_connectivity,
    "misc": g_misc,
    "testing": g_testing,
    "to_string": g_to_string,
    "formula": g_formula,
    "radii": g_radii,
}


# --------------------------------------------------------------------------------------------------
# rendering


def lean_str(s: str) -> str:
    if not all(32 <= ord(ch) < 127 and ch not in '"\\' for ch in s):
        raise SrcShapeError("string constant with characters outside printable ASCII (or a quote/backslash): %r" % s)
    return '"' + s + '"'


def rat(fr: Fraction) -> str:
    if fr.denominator == 1:
        return f"({fr.numerator} : Rat)"
    return f"({fr.numerator} : Rat) / {fr.denominator}"


def render_value(name: str, v, comment: str):
    """→ list of Lean lines"""
    doc = f"/-- {comment.replace('-/', '- /')} -/"
    k = v[0]
    if k == "bool":
        return [doc, f"def {name} : Bool := {'true' if v[1] else 'false'}"]
    if k == "int":
        return [doc, f"def {name} : Int := {v[1]}"]
    if k == "none":
        return [doc, f"def {name} : Option Unit := none"]
    if k == "str":
        return [doc, f"def {name} : String := {lean_str(v[1])}"]
    if k == "strs":
        return [doc, f"def {name} : List String := [" + ", ".join(lean_str(x) for x in v[1]) + "]"]
    if k == "pairs":
        return [doc, f"def {name} : List (String × String) :=", "  [ " + ",\n    ".join(f"({lean_str(a)}, {lean_str(b)})" for a, b in v[1]) + " ]"]
    if k == "formats":
        rows = [f"({lean_str(a)}, {lean_str(b)}, {lean_str(c)}, {lean_str(d)}, {lean_str(e)}, {'true' if f else 'false'}, {'true' if g else 'false'})" for a, b, c, d, e, f, g in v[1]]
        return [doc, f"def {name} : List (String × String × String × String × String × Bool × Bool) :=", "  [ " + ",\n    ".join(rows) + " ]"]
    if k == "float":
        text, neg = v[1], v[2]
        d = Decimal(text)
        sign, digits, exp = d.as_tuple()
        coeff = int("".join(map(str, digits)))
        exact = Fraction(d)
        x = float(text)
        bits = struct.unpack("<Q", struct.pack("<d", x))[0]
        f64 = Fraction(x)
        if neg:
            exact, f64, bits = -exact, -f64, bits | (1 << 63)
        return [
            f"/-- {comment.replace('-/', '- /')} — source text `{'-' if neg else ''}{text}`: the exact decimal value -/",
            f"def {name} : Rat := {rat(exact)}",
            "/-- … the double CPython reads from that text, exactly -/",
            f"def {name}_f64 : Rat := {rat(f64)}",
            "/-- … the decimal as (negative, coefficient, exponent) -/",
            f"def {name}_dec : Bool × Nat × Int := ({'true' if neg else 'false'}, {coeff}, {exp})",
            "/-- … the IEEE-754 binary64 bit pattern of that double -/",
            f"def {name}_bits : Nat := {bits}",
        ]
    raise SrcShapeError(f"cannot render {v!r}")


def extract(repo: Path):
    """→ (values: {group: [(name, value, comment)]}, errors: {group: message})"""
    values, errors = {}, {}
    for g, f in GROUPS.items():
        try:
            vals = f(repo)
            for n, v, c in vals:  # render now so that a rendering problem is a group error too
                render_value(n, v, c)
            values[g] = vals
        except SrcShapeError as e:
            errors[g] = str(e)
        except Exception as e:  # an extractor bug is a broken tie as well, never a guess
            errors[g] = f"{type(e).__name__}: {e}"
    return values, errors


def render(values, errors) -> str:
    lines = [
        "/-! GENERATED by tools/gen_srcconsts.py from the Python sources of the working tree (read by `ast`, never imported) — do not edit.",
        "Constants, keyword defaults and small literal tables that the hand-written Lean models hard-code; `Props/ConstTie*.lean` proves them equal.",
        "A group whose source shape was not recognised is NOT emitted (its dependants stop building): -/",
        "namespace QcelVerif.Src",
        "",
    ]
    for g in GROUPS:
        if g in errors:
            lines += [f"/- group `{g}`: NOT TRANSLATED — " + errors[g].replace("-/", "- /") + " -/", ""]
            continue
        lines.append(f"/-! ### group `{g}` -/")
        lines.append(f"/-- marker: the group `{g}` was translated on this run -/")
        lines.append(f"def group_{g} : Bool := true")
        for n, v, c in values[g]:
            lines += render_value(n, v, c)
        lines.append("")
    lines.append("end QcelVerif.Src")
    return "\n".join(lines) + "\n"


def main(ctx=None, repo=None) -> dict:
    """regenerate Gen/SrcConsts.lean; returns {group: error message} for the groups that could not be translated"""
    if repo is None:
        repo = Path(os.environ.get("QCEL_REPO", "/repo"))
    values, errors = extract(Path(repo))
    write(values, errors)
    return errors


def write(values, errors) -> None:
    body = render(values, errors)
    OUT.parent.mkdir(exist_ok=True)
    if not OUT.exists() or OUT.read_text() != body:
        tmp = OUT.with_suffix(f".lean.tmp{os.getpid()}")
        tmp.write_text(body)
        os.replace(tmp, OUT)  # atomic: checks of several properties may run concurrently


if __name__ == "__main__":
    errs = main()
    for g, e in errs.items():
        print(f"group {g}: {e}", file=sys.stderr)
    sys.exit(1 if errs else 0)
