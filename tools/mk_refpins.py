#!/venv/bin/python
"""Pin the published reference tables the oracles of C01 / C02 read from /repo/raw_data (NIST SRD-144, CODATA 2014 / 2018).

    tools/mk_refpins.py        # writes harness/data/refpins.json.gz from the CURRENT /repo/raw_data (run on the pristine tree only)

The properties say "exactly those of NIST SRD-144" / "identical to NIST's published table".  The oracles re-read the raw NIST files
shipped under /repo/raw_data on every run; a change that edits the raw file AND the generated table consistently would otherwise be
invisible.  The pin is the oracles' own parsed reading of those files at the pinned commit (nothing else), kept in /verif; at run time a
row on which the working tree's raw file departs from the pin is judged against the PIN.  A raw file that changed while the library still
returns the pinned values raises no alarm.
"""
import gzip, json, sys
sys.path.insert(0, "/verif/harness")
import c01, c02  # noqa: E402

exp, elements, conflicts = c01.nist_expectations_raw()
assert not conflicts, conflicts
pin = {"srd144": {k: list(v) for k, v in exp.items()},
       "codata": {str(y): [list(r) for r in c02.nist_table_raw(y)] for y in (2014, 2018)}}
import os
os.makedirs("/verif/harness/data", exist_ok=True)
with gzip.GzipFile("/verif/harness/data/refpins.json.gz", "wb", mtime=0) as f:
    f.write(json.dumps(pin, sort_keys=True).encode())
print("pinned", len(pin["srd144"]), "SRD-144 labels;", {y: len(r) for y, r in pin["codata"].items()}, "CODATA rows")
