#!/usr/bin/env python3
"""Translator for C09: regenerates lean/QcelVerif/Gen/SchemaC09.lean from the *live* model classes of
the QCElemental working tree the check runs against (QCEL_REPO, imported in-process).

Two independent extractions, which Lean then compares (`declSchema env = exported`, Driver/C09 `tie`):

  * `env`       from `Model.__fields__` (pydantic-v1 `ModelField.outer_type_`, `.alias`, `.required`,
                `Config.extra`): every model / enum reachable from `qcschema_models()` as a `Decl` with
                `Ty` terms.  ndarray dtypes are classified here by numpy kind (NOT by calling
                `TypedArray.__modify_schema__`).  The only information taken from the exported schema is
                which of the two `schema_extra` edit forms of models/basis.py applies to a field
                (`uniqueItems: true`; number -> number|string): such a refinement narrows / widens the
                `Ty`, is recorded in REFINEMENTS, and its soundness is then carried by the per-instance
                `hasType` check of the driver.
  * `exported`  from `Model.schema()`: re-encoded keyword by keyword after dropping the annotation-only
                keywords (title, description, default, shape, units, $schema).  An unknown keyword, a
                `$ref` that does not point into the root `definitions`, or a `multipleOf` other than 1.0
                is a translator failure (= broken tie), never silently dropped.

pydantic's own schema generation is a parameter of C09; nothing here re-implements it (that is `schemaOf` /
`declSchema` in Lean).
"""
import enum
import json
import os
import sys
import typing
from pathlib import Path

OUT = Path(__file__).resolve().parent.parent / "lean" / "QcelVerif" / "Gen"
ANNOTATIONS = {"title", "description", "default", "shape", "units", "$schema"}
REFINEMENTS = []  # (model, field, what) — filled by main()
SUMMARY = {}


class TranslatorError(Exception):
    pass


def lstr(s: str) -> str:
    out = []
    for ch in s:
        if ch == "\\":
            out.append("\\\\")
        elif ch == '"':
            out.append('\\"')
        elif ch == "\n":
            out.append("\\n")
        elif ch == "\t":
            out.append("\\t")
        elif ord(ch) < 32 or ord(ch) > 126:
            out.append("\\u{%x}" % ord(ch))
        else:
            out.append(ch)
    return '"' + "".join(out) + '"'


def lopt(x, f=str):
    return "none" if x is None else f"(some {f(x)})"


def lint(i: int) -> str:
    return str(i) if i >= 0 else f"({i})"


# ------------------------------------------------------------------------------------------------
# Ty extraction from the classes


def np_kind(dt) -> str:
    import numpy as np

    k = np.dtype(dt).kind
    if k in "iu":
        return "int"
    if k == "f":
        return "float"
    if k in "US":
        return "str"
    if k == "b":
        return "bool"
    raise TranslatorError(f"ndarray dtype {dt!r} of kind {k!r} not in the Ty language")


def as_int(x, what):
    if x is None:
        return None
    if float(x) != int(x):
        raise TranslatorError(f"non-integral bound {x!r} for {what}")
    return int(x)


class Extract:
    def __init__(self):
        self.decls = {}  # name -> ("model", fields, extra) | ("enum", vals)
        self.order = []
        self.classes = {}

    def ty(self, tp):
        from pydantic.v1 import BaseModel, ConstrainedFloat, ConstrainedInt, ConstrainedList, ConstrainedStr

        from qcelemental.models.types import TypedArray

        if tp is typing.Any:
            return ("any",)
        origin = typing.get_origin(tp)
        args = typing.get_args(tp)
        if origin is typing.Union:
            rest = [a for a in args if a is not type(None)]
            if len(rest) == 1:
                return self.ty(rest[0])
            return ("union", [self.ty(a) for a in rest])
        if origin is typing.Literal:
            if not all(isinstance(a, str) for a in args):
                raise TranslatorError(f"non-string Literal {tp!r}")
            return ("lit", list(args))
        if origin in (list, typing.List):
            return ("list", self.ty(args[0]), None, False)
        if origin in (tuple, typing.Tuple):
            if len(args) == 2 and args[1] is Ellipsis:
                raise TranslatorError("variadic tuple not in the Ty language")
            return ("tuple", [self.ty(a) for a in args])
        if origin in (dict, typing.Dict):
            if args[0] is not str:
                raise TranslatorError(f"dict key type {args[0]!r}")
            return ("dict", self.ty(args[1]))
        if origin is not None:
            raise TranslatorError(f"type constructor {origin!r} not in the Ty language")
        if not isinstance(tp, type):
            raise TranslatorError(f"annotation {tp!r} not understood")
        if issubclass(tp, TypedArray):
            return ("array", np_kind(tp._dtype))
        if issubclass(tp, ConstrainedList):
            if tp.max_items is not None:
                raise TranslatorError("max_items not in the Ty language")
            return ("list", self.ty(tp.item_type), tp.min_items, bool(tp.unique_items))
        if issubclass(tp, enum.Enum):
            if not issubclass(tp, str):
                raise TranslatorError(f"non-str Enum {tp!r}")
            self.add_enum(tp)
            return ("enumRef", tp.__name__)
        if issubclass(tp, BaseModel):
            self.add_model(tp)
            return ("model", tp.__name__)
        if issubclass(tp, ConstrainedStr):
            for a in ("min_length", "max_length", "curtail_length"):
                if getattr(tp, a, None) is not None:
                    raise TranslatorError(f"constr {a} not in the Ty language")
            return ("strPat", tp.regex.pattern) if tp.regex is not None else ("str",)
        if issubclass(tp, ConstrainedInt):
            for a in ("gt", "lt", "le", "multiple_of"):
                if getattr(tp, a, None) is not None:
                    raise TranslatorError(f"conint {a} not in the Ty language")
            return ("int", as_int(tp.ge, tp))
        if issubclass(tp, ConstrainedFloat):
            for a in ("gt", "lt", "multiple_of"):
                if getattr(tp, a, None) is not None:
                    raise TranslatorError(f"confloat {a} not in the Ty language")
            return ("float", as_int(tp.ge, tp), as_int(tp.le, tp))
        if tp is bool:
            return ("bool",)
        if tp is int:
            return ("int", None)
        if tp is float:
            return ("float", None, None)
        if tp is str:
            return ("str",)
        raise TranslatorError(f"type {tp!r} not in the Ty language")

    def add_enum(self, cls):
        name = cls.__name__
        if name in self.decls:
            if self.classes[name] is not cls:
                raise TranslatorError(f"two classes named {name}")
            return
        self.classes[name] = cls
        self.decls[name] = ("enum", [m.value for m in cls])
        self.order.append(name)

    def add_model(self, cls):
        from pydantic.v1.schema import get_field_info_schema, get_field_schema_validations

        name = cls.__name__
        if name in self.decls:
            if self.classes[name] is not cls:
                raise TranslatorError(f"two classes named {name}")
            return
        self.classes[name] = cls
        self.decls[name] = None  # placeholder (cycle guard)
        fields = []
        for fname, f in cls.__fields__.items():
            t = self.ty(f.outer_type_)
            overrides = bool(get_field_info_schema(f)[1]) or bool(get_field_schema_validations(f))
            wrap = overrides and t[0] in ("model", "enumRef")
            fields.append({"name": fname, "alias": f.alias, "ty": t, "required": bool(f.required), "wrap": wrap})
        extra = getattr(cls.__config__.extra, "value", cls.__config__.extra)
        if extra not in ("allow", "forbid", "ignore"):
            raise TranslatorError(f"Config.extra {extra!r}")
        self.decls[name] = ("model", fields, extra != "forbid")
        self.order.append(name)


def refine(ty, sch, where, log):
    """Apply the schema_extra edit forms found in the exported property schema `sch` to `ty`."""
    if not isinstance(sch, dict):
        return ty
    if ty[0] == "list":
        _, t, mn, uq = ty
        if sch.get("uniqueItems") is True and not uq:
            log.append(where + ("uniqueItems",))
            uq = True
        it = sch.get("items")
        return ("list", refine(t, it, where, log) if isinstance(it, dict) else t, mn, uq)
    if ty[0] == "float" and ty[1] is None and ty[2] is None:
        if sch == {"anyOf": [{"type": "number"}, {"type": "string"}]}:
            log.append(where + ("number|string",))
            return ("union", [("float", None, None), ("str",)])
    return ty


def ty_term(t) -> str:
    k = t[0]
    if k in ("any", "bool", "str"):
        return "." + k
    if k == "int":
        return f"(.int {lopt(t[1], lint)})"
    if k == "float":
        return f"(.float {lopt(t[1], lint)} {lopt(t[2], lint)})"
    if k == "strPat":
        return f"(.strPat {lstr(t[1])})"
    if k == "lit":
        return "(.lit [" + ", ".join(lstr(v) for v in t[1]) + "])"
    if k == "enumRef":
        return f"(.enumRef {lstr(t[1])})"
    if k == "list":
        return f"(.list {ty_term(t[1])} {lopt(t[2])} {'true' if t[3] else 'false'})"
    if k == "tuple":
        return "(.tuple [" + ", ".join(ty_term(x) for x in t[1]) + "])"
    if k == "dict":
        return f"(.dict {ty_term(t[1])})"
    if k == "array":
        return f"(.array .{t[1]})"
    if k == "model":
        return f"(.model {lstr(t[1])})"
    if k == "union":
        return "(.union [" + ", ".join(ty_term(x) for x in t[1]) + "])"
    raise TranslatorError(f"Ty {t!r}")


# ------------------------------------------------------------------------------------------------
# exported schema -> Schema terms

JTYPES = {"object", "array", "string", "integer", "number", "boolean"}
KNOWN = {
    "type", "properties", "required", "additionalProperties", "items", "enum", "anyOf", "allOf", "$ref",
    "pattern", "multipleOf", "minItems", "maxItems", "uniqueItems", "minimum", "maximum", "definitions",
}


def strip_annotations(s):
    if isinstance(s, dict):
        out = {}
        for k, v in s.items():
            if k in ANNOTATIONS:
                continue
            if k in ("properties", "definitions"):
                out[k] = {kk: strip_annotations(vv) for kk, vv in v.items()}
            elif k in ("items", "additionalProperties") and isinstance(v, (dict, list)):
                out[k] = strip_annotations(v)
            elif k in ("anyOf", "allOf"):
                out[k] = [strip_annotations(x) for x in v]
            else:
                out[k] = v
        return out
    if isinstance(s, list):
        return [strip_annotations(x) for x in s]
    return s


def json_term(v) -> str:
    if v is None:
        return ".null"
    if isinstance(v, bool):
        return f"(.bool {'true' if v else 'false'})"
    if isinstance(v, int):
        return f"(.int {lint(v)})"
    if isinstance(v, str):
        return f"(.str {lstr(v)})"
    raise TranslatorError(f"enum member {v!r} not supported")


def schema_term(s, top=False) -> str:
    if not isinstance(s, dict):
        raise TranslatorError(f"schema {s!r} is not an object")
    unknown = set(s) - KNOWN
    if unknown:
        raise TranslatorError(f"schema keyword(s) {sorted(unknown)} not in the modelled subset")
    if "definitions" in s and not top:
        raise TranslatorError("nested definitions")
    parts = []
    if "$ref" in s:
        r = s["$ref"]
        if not r.startswith("#/definitions/"):
            raise TranslatorError(f"$ref {r!r}")
        parts.append(f"ref := some {lstr(r[len('#/definitions/'):])}")
    if "type" in s:
        if s["type"] not in JTYPES:
            raise TranslatorError(f"type {s['type']!r}")
        parts.append(f"type := some .{s['type']}")
    if "enum" in s:
        parts.append("enum := some [" + ", ".join(json_term(v) for v in s["enum"]) + "]")
    if "pattern" in s:
        parts.append(f"pattern := some {lstr(s['pattern'])}")
    if "multipleOf" in s:
        if s["multipleOf"] != 1:
            raise TranslatorError(f"multipleOf {s['multipleOf']!r}")
        parts.append("multipleOf1 := true")
    for kw, fld in (("minimum", "minimum"), ("maximum", "maximum")):
        if kw in s:
            parts.append(f"{fld} := some {lint(as_int(s[kw], kw))}")
    for kw, fld in (("minItems", "minItems"), ("maxItems", "maxItems")):
        if kw in s:
            if not isinstance(s[kw], int) or s[kw] < 0:
                raise TranslatorError(f"{kw} {s[kw]!r}")
            parts.append(f"{fld} := some {s[kw]}")
    if "uniqueItems" in s:
        if not isinstance(s["uniqueItems"], bool):
            raise TranslatorError("uniqueItems")
        if s["uniqueItems"]:
            parts.append("uniqueItems := true")
    if "items" in s:
        if isinstance(s["items"], list):
            parts.append("itemsTuple := some [" + ", ".join(schema_term(x) for x in s["items"]) + "]")
        else:
            parts.append(f"items := some {schema_term(s['items'])}")
    if "properties" in s:
        parts.append(
            "props := [" + ", ".join(f"({lstr(k)}, {schema_term(v)})" for k, v in s["properties"].items()) + "]"
        )
    if "required" in s:
        parts.append("required := [" + ", ".join(lstr(k) for k in s["required"]) + "]")
    if "additionalProperties" in s:
        ap = s["additionalProperties"]
        if ap is False:
            parts.append("addlForbidden := true")
        elif isinstance(ap, dict):
            parts.append(f"addlSchema := some {schema_term(ap)}")
        elif ap is not True:
            raise TranslatorError("additionalProperties")
    for kw in ("anyOf", "allOf"):
        if kw in s:
            if not s[kw]:
                raise TranslatorError(f"empty {kw}")
            parts.append(f"{kw} := [" + ", ".join(schema_term(x) for x in s[kw]) + "]")
    return "({ " + ", ".join(parts) + " } : Schema)" if parts else "({} : Schema)"


# ------------------------------------------------------------------------------------------------


def extract(models=None):
    """-> (Extract with decls refined, {model name: stripped exported schema}, refinement log)"""
    import qcelemental as qcel

    models = models or qcel.models.qcschema_models()
    ex = Extract()
    exported = {}
    for m in models:
        ex.add_model(m)
        exported[m.__name__] = strip_annotations(m.schema())
    # refinements: look up each model's property schemas wherever that model is exported
    log = []
    where_exported = {}
    for root, s in exported.items():
        where_exported.setdefault(root, s)
        for dn, ds in s.get("definitions", {}).items():
            where_exported.setdefault(dn, ds)
    for name in ex.order:
        d = ex.decls[name]
        if d[0] != "model":
            continue
        props = where_exported.get(name, {}).get("properties", {})
        for f in d[1]:
            f["ty"] = refine(f["ty"], props.get(f["alias"]), (name, f["name"]), log)
    return ex, exported, log


def render(ex, exported) -> str:
    lines = [
        "import QcelVerif.Model.Schema",
        "/-! GENERATED by tools/gen_schema.py from the live QCElemental model classes — do not edit. -/",
        "namespace QcelVerif.Gen.SchemaC09",
        "open QcelVerif.Schema",
        "",
    ]
    dnames = []
    for i, name in enumerate(ex.order):
        d = ex.decls[name]
        ident = f"d{i}"
        dnames.append(ident)
        if d[0] == "enum":
            lines.append(f"def {ident} : Decl := .enum {lstr(name)} [" + ", ".join(lstr(v) for v in d[1]) + "]")
        else:
            fl = []
            for f in d[1]:
                fl.append(
                    f"  ⟨{lstr(f['name'])}, {lstr(f['alias'])}, {ty_term(f['ty'])}, "
                    f"{'true' if f['required'] else 'false'}, {'true' if f['wrap'] else 'false'}⟩"
                )
            # chunk the field list (elaborator depth)
            chunks = [fl[j : j + 25] for j in range(0, len(fl), 25)] or [[]]
            cn = []
            for j, ch in enumerate(chunks):
                cid = f"{ident}_f{j}"
                cn.append(cid)
                lines.append(f"def {cid} : List Field := [\n" + ",\n".join(ch) + "]")
            lines.append(
                f"def {ident} : Decl := .model {lstr(name)} ({' ++ '.join(cn)}) {'true' if d[2] else 'false'}"
            )
    lines.append("")
    lines.append("def env : Env := [" + ", ".join(dnames) + "]")
    lines.append("")
    # exported schemas, deduplicated
    pool = {}

    def pooled(name, s, top):
        key = json.dumps(s, sort_keys=False)
        if key not in pool:
            ident = f"x{len(pool)}"
            pool[key] = ident
            body = dict(s)
            body.pop("definitions", None)
            props = body.get("properties")
            if props and len(props) > 25:
                # chunk large property lists
                items = list(props.items())
                cn = []
                for j in range(0, len(items), 25):
                    cid = f"{ident}_p{j // 25}"
                    cn.append(cid)
                    lines.append(
                        f"def {cid} : List (String × Schema) := [\n"
                        + ",\n".join(f"  ({lstr(k)}, {schema_term(v)})" for k, v in items[j : j + 25])
                        + "]"
                    )
                rest = {k: v for k, v in body.items() if k != "properties"}
                t = schema_term(rest, top=top)
                assert t.startswith("({ ")
                t = "({ props := " + " ++ ".join(cn) + ", " + t[3:]
                lines.append(f"def {ident} : Schema := {t}")
            else:
                lines.append(f"def {ident} : Schema := {schema_term(body, top=top)}")
        return pool[key]

    roots = []
    for name, s in exported.items():
        defs = []
        for dn, ds in s.get("definitions", {}).items():
            defs.append(f"({lstr(dn)}, {pooled(dn, ds, False)})")
        rid = pooled(name, {k: v for k, v in s.items() if k != "definitions"}, True)
        roots.append(f"  ({lstr(name)}, {rid}, [" + ", ".join(defs) + "])")
    lines.append("")
    lines.append("def exported : List (String × Schema × List (String × Schema)) := [\n" + ",\n".join(roots) + "]")
    lines.append("")
    lines.append("end QcelVerif.Gen.SchemaC09")
    return "\n".join(lines) + "\n"


def write_if_changed(path: Path, text: str):
    path.parent.mkdir(parents=True, exist_ok=True)
    if path.exists() and path.read_text() == text:
        return
    path.write_text(text)


def main(ctx=None):
    ex, exported, log = extract()
    REFINEMENTS[:] = log
    SUMMARY.clear()
    SUMMARY.update(
        {
            "decls": len(ex.order),
            "models": sum(1 for n in ex.order if ex.decls[n][0] == "model"),
            "fields": sum(len(ex.decls[n][1]) for n in ex.order if ex.decls[n][0] == "model"),
            "roots": list(exported),
        }
    )
    write_if_changed(OUT / "SchemaC09.lean", render(ex, exported))
    return ex, exported


if __name__ == "__main__":
    main()
    print(SUMMARY, REFINEMENTS, file=sys.stderr)
