#!/usr/bin/env python3
"""Regenerates seeded/README.md from seeded/*/meta.json."""
import json, glob, os, re
rows = []
def key(d):
    m = re.match(r".*/(C\d+)-(\d+)$", d); return (m.group(1), int(m.group(2)))
for d in sorted(glob.glob("/verif/seeded/C*-*"), key=key):
    m = json.load(open(d + "/meta.json"))
    esc = lambda s: str(s).replace("|", "/").replace("\n", " ")
    rows.append(f"| {os.path.basename(d)} | {esc(m.get('summary',''))[:160]} | {esc(m.get('what_it_needs_to_manifest',''))[:140]} | {esc(m.get('confirmed_by_me',''))[:260]} |")
head = """# Seeded changes

Each directory holds one change to QCElemental written by an independent sub-agent that was given
only the property text and a scratch worktree (nothing from /verif): `patch.diff`, `demo.py`
(exit 0 on the unchanged library, exit 1 with the change; the existing suite passes either way)
and `meta.json` (what it needs to manifest, what was run to confirm it, which check fired).
None of these is ever committed to /repo. To re-run one: copy /repo to a scratch directory, apply
the patch there and run `QCEL_REPO=<scratch> ./check <Cxx> --tier quick` (see `tools/try_seed.sh`).
Rounds: k = 1,2 round 1; 3,4 round 2; 5,6 round 3 (each round was told the earlier ones and asked for new mechanisms).

| seed | change | needs to manifest | what was run / which check fired |
|---|---|---|---|
"""
open("/verif/seeded/README.md", "w").write(head + "\n".join(rows) + "\n")
print(len(rows), "seeds")
